// Package seams holds the simulator-owned implementations of the interfaces nuts-node
// already has for storage, transport and HTTP.
package seams

import (
	"context"
	"errors"
	"fmt"
	"sync"
	"sync/atomic"

	"github.com/nuts-foundation/go-stoabs"
	"verifsim/simkit"
)

// Incarnation is one life of a simulated node process. After Kill every seam of that life
// fails fast and has no durable or external effect: that is the model of a process stop.
type Incarnation struct {
	Node string
	Gen  int
	S    *simkit.Sim
	dead atomic.Bool
	// OnCrash is called (once) from the goroutine that hit a crash point.
	OnCrash func(site string)
}

func (i *Incarnation) Dead() bool { return i == nil || i.dead.Load() }

// Kill marks the incarnation dead. It returns false if it already was.
func (i *Incarnation) Kill(site string) bool {
	if i.dead.Swap(true) {
		return false
	}
	if site == "shutdown" {
		return true
	}
	i.S.Faults.Inc("crash")
	i.S.Tr.Add("CRASH %s gen%d at %s", i.Node, i.Gen, site)
	if i.OnCrash != nil && site != "root" {
		i.OnCrash(site)
	}
	return true
}

// ErrCrashed is what seams return to code of a dead incarnation.
var ErrCrashed = stoabs.DatabaseError(errors.New("sim: process stopped"))

// ErrInjected marks injected KV operation failures.
var ErrInjected = stoabs.DatabaseError(errors.New("sim: injected storage failure"))

// FaultPoints is shared by all seams of a run: it implements sampled faults (by decisions)
// and enumerated faults (the k-th fault point of the armed window fires).
type FaultPoints struct {
	S  *simkit.Sim
	mu sync.Mutex
	// Armed: fault points only count and fire while armed (the workload phase).
	Armed bool
	// Sampled rates (permille) per kind; a kind that is absent never fires in sampled mode.
	Rates map[string]int
	// Enumeration: Target>=0 fires the fault point with that ordinal; Count is the running ordinal.
	Enum   bool
	Target int
	Count  int
	Fired  string // description of the enumerated point that fired
	// Filter restricts fault points to sites for which it returns true (nil: all).
	Filter func(kind, site string) bool
	// Seen lists the fault points of the run in order (enumeration counting runs).
	Seen []string
	// MaxFaults bounds sampled faults per run (0: unbounded).
	MaxFaults int
	fired     int
}

// Hit is called at a potential fault point. It reports whether the fault fires.
func (f *FaultPoints) Hit(kind, site string) bool {
	if f == nil {
		return false
	}
	f.mu.Lock()
	defer f.mu.Unlock()
	if !f.Armed {
		return false
	}
	if f.Filter != nil && !f.Filter(kind, site) {
		return false
	}
	if f.Enum {
		idx := f.Count
		f.Count++
		if len(f.Seen) < 4000 {
			f.Seen = append(f.Seen, kind+" "+site)
		}
		if idx == f.Target {
			f.Fired = fmt.Sprintf("#%d %s %s", idx, kind, site)
			f.S.Faults.Inc(kind)
			f.S.Tr.Add("FAULT %s %s", kind, site)
			return true
		}
		return false
	}
	rate, ok := f.Rates[kind]
	if !ok || rate <= 0 {
		return false
	}
	if f.MaxFaults > 0 && f.fired >= f.MaxFaults {
		return false
	}
	if f.S.D.Chance("fault "+kind+" "+site, rate) {
		f.fired++
		f.S.Faults.Inc(kind)
		f.S.Tr.Add("FAULT %s %s", kind, site)
		return true
	}
	return false
}

// Arm switches the fault window on or off.
func (f *FaultPoints) Arm(on bool) {
	if f == nil {
		return
	}
	f.mu.Lock()
	f.Armed = on
	f.mu.Unlock()
}

// CancelKey is the context key under which a workload passes the cancel function of the
// context it hands to the node (see KVCtxCancel).
type CancelKey struct{}

// Fault kinds of the KV seam.
const (
	KVCtxCancel = "ctx.cancel-in-write-tx" // the caller's context is cancelled inside a write transaction (before commit)
	KVOpErr             = "kv.op-error"           // a Put/Delete inside a write transaction fails
	KVCommitFail        = "kv.commit-fail"        // the commit fails, nothing is stored, OnRollback runs
	KVCrashBeforeCommit = "crash.before-commit"   // process stops after the callback, before commit
	KVCrashAfterCommit  = "crash.after-commit"    // process stops after commit, before any AfterCommit hook
	KVCrashBetweenHooks = "crash.between-hooks"   // process stops between two AfterCommit hooks
	KVCrashBeforeTx     = "crash.before-write-tx" // process stops when a write transaction is about to start
)

// KV wraps a real stoabs store: it yields to the scheduler before every transaction, injects
// faults and crash points, and fails fast once the incarnation is dead.
type KV struct {
	Real stoabs.KVStore
	S    *simkit.Sim
	Inc  *Incarnation
	Name string
	F    *FaultPoints
	// Observe, if set, is called after every committed write transaction with the shelves touched.
	Observe func(name string, shelves map[string]int)
	// ObserveOps, if set, is called after every committed write transaction with its operations.
	ObserveOps func(name string, ops []KVOp)
	// NoYield makes this store transparent to the scheduler (still fault-injecting).
	NoYield bool
	// RollbackPending counts write transactions that were rolled back and whose OnRollback
	// hooks have not finished yet (derived in-memory state may lag the store meanwhile).
	RollbackPending atomic.Int32
	// Commits / Rollbacks count finished write transactions.
	Commits, Rollbacks atomic.Int64
}

var _ stoabs.KVStore = (*KV)(nil)

func (k *KV) site(op string) string { return k.Name + "." + op }

func (k *KV) Close(ctx context.Context) error {
	// nuts-node shutdown closes its stores; the simulator owns the real handle's lifetime.
	return nil
}

// KVOp is one committed Put or Delete.
type KVOp struct {
	Shelf string
	Key   []byte
	Del   bool
}

type wtx struct {
	stoabs.WriteTx
	kv      *KV
	shelves map[string]int
	ops     []KVOp
}

func (t *wtx) Store() stoabs.KVStore { return t.kv }
func (t *wtx) GetShelfWriter(shelf string) stoabs.Writer {
	return &writer{Writer: t.WriteTx.GetShelfWriter(shelf), tx: t, shelf: shelf}
}

type rtx struct {
	stoabs.ReadTx
	kv *KV
}

func (t *rtx) Store() stoabs.KVStore { return t.kv }

type writer struct {
	stoabs.Writer
	tx    *wtx
	shelf string
}

func (w *writer) Put(key stoabs.Key, value []byte) error {
	if w.tx.kv.F.Hit(KVOpErr, w.tx.kv.Name+"/"+w.shelf+".Put") {
		return ErrInjected
	}
	w.tx.shelves[w.shelf]++
	if w.tx.kv.ObserveOps != nil {
		w.tx.ops = append(w.tx.ops, KVOp{Shelf: w.shelf, Key: append([]byte(nil), key.Bytes()...)})
	}
	return w.Writer.Put(key, value)
}

func (w *writer) Delete(key stoabs.Key) error {
	if w.tx.kv.F.Hit(KVOpErr, w.tx.kv.Name+"/"+w.shelf+".Delete") {
		return ErrInjected
	}
	w.tx.shelves[w.shelf]++
	if w.tx.kv.ObserveOps != nil {
		w.tx.ops = append(w.tx.ops, KVOp{Shelf: w.shelf, Key: append([]byte(nil), key.Bytes()...), Del: true})
	}
	return w.Writer.Delete(key)
}

var errCrashInTx = errors.New("sim: crash before commit")
var errCommitInjected = errors.New("sim: injected commit failure")

func splitHooks(opts []stoabs.TxOption) (rest []stoabs.TxOption, after []stoabs.TxOption, rollback []stoabs.TxOption) {
	for _, o := range opts {
		switch o.(type) {
		case *stoabs.AfterCommitOption:
			after = append(after, o)
		case *stoabs.OnRollbackOption:
			rollback = append(rollback, o)
		default:
			rest = append(rest, o)
		}
	}
	return
}

func (k *KV) yield(op string) {
	if !k.NoYield {
		k.S.Yield(k.site(op))
	}
}

// Write runs a write transaction on the real store with fault and crash points around it.
func (k *KV) Write(ctx context.Context, fn func(stoabs.WriteTx) error, opts ...stoabs.TxOption) error {
	return k.write(ctx, "Write", func(tx *wtx) error { return fn(tx) }, opts)
}

func (k *KV) WriteShelf(ctx context.Context, shelf string, fn func(stoabs.Writer) error) error {
	return k.write(ctx, "WriteShelf:"+shelf, func(tx *wtx) error { return fn(tx.GetShelfWriter(shelf)) }, nil)
}

func (k *KV) write(ctx context.Context, op string, fn func(*wtx) error, opts []stoabs.TxOption) error {
	if k.Inc.Dead() {
		return ErrCrashed
	}
	nested := k.S.InTx()
	if !nested {
		k.yield(op)
		if k.Inc.Dead() {
			return ErrCrashed
		}
		if k.F.Hit(KVCrashBeforeTx, k.site(op)) {
			k.Inc.Kill(KVCrashBeforeTx + " " + k.site(op))
			return ErrCrashed
		}
	}
	rest, after, rollback := splitHooks(opts)
	var shelves map[string]int
	var ops *[]KVOp
	crashBefore := false
	k.S.EnterTx()
	err := k.Real.Write(ctx, func(tx stoabs.WriteTx) error {
		w := &wtx{WriteTx: tx, kv: k, shelves: map[string]int{}}
		shelves = w.shelves
		ops = &w.ops
		if err := fn(w); err != nil {
			return err
		}
		if nested {
			return nil
		}
		if k.F.Hit(KVCrashBeforeCommit, k.site(op)) {
			crashBefore = true
			return errCrashInTx
		}
		if k.F.Hit(KVCommitFail, k.site(op)) {
			return errCommitInjected
		}
		// the caller's context ends (client went away, deadline) while the transaction is open: the store refuses to commit
		if cancel, ok := ctx.Value(CancelKey{}).(context.CancelFunc); ok && k.F.Hit(KVCtxCancel, k.site(op)) {
			cancel()
		}
		return nil
	}, rest...)
	k.S.LeaveTx()
	if crashBefore {
		k.Inc.Kill(KVCrashBeforeCommit + " " + k.site(op))
		return ErrCrashed
	}
	if err != nil {
		if errors.Is(err, errCommitInjected) {
			err = fmt.Errorf("%w: %w", stoabs.ErrCommitFailed, ErrInjected)
		}
		k.Rollbacks.Add(1)
		if len(rollback) > 0 {
			k.RollbackPending.Add(1)
			stoabs.OnRollbackOption{}.Invoke(rollback)
			k.RollbackPending.Add(-1)
		}
		if !nested {
			k.yield(op + ".failed")
		}
		return err
	}
	k.Commits.Add(1)
	if k.Observe != nil {
		k.Observe(k.Name, shelves)
	}
	if k.ObserveOps != nil && ops != nil {
		k.ObserveOps(k.Name, *ops)
	}
	if !nested && k.F.Hit(KVCrashAfterCommit, k.site(op)) {
		k.Inc.Kill(KVCrashAfterCommit + " " + k.site(op))
		return ErrCrashed
	}
	for i, h := range after {
		if k.Inc.Dead() {
			return ErrCrashed
		}
		stoabs.AfterCommitOption{}.Invoke([]stoabs.TxOption{h})
		if i < len(after)-1 && !nested && k.F.Hit(KVCrashBetweenHooks, k.site(op)) {
			k.Inc.Kill(KVCrashBetweenHooks + " " + k.site(op))
			return ErrCrashed
		}
	}
	if !nested {
		k.yield(op + ".done")
	}
	return nil
}

func (k *KV) Read(ctx context.Context, fn func(stoabs.ReadTx) error) error {
	if k.Inc.Dead() {
		return ErrCrashed
	}
	if !k.S.InTx() {
		k.yield("Read")
		if k.Inc.Dead() {
			return ErrCrashed
		}
	}
	nested := k.S.InTx()
	k.S.EnterTx()
	err := k.Real.Read(ctx, func(tx stoabs.ReadTx) error { return fn(&rtx{tx, k}) })
	k.S.LeaveTx()
	if !nested {
		k.yield("Read.done")
	}
	return err
}

func (k *KV) ReadShelf(ctx context.Context, shelf string, fn func(stoabs.Reader) error) error {
	if k.Inc.Dead() {
		return ErrCrashed
	}
	if !k.S.InTx() {
		k.yield("ReadShelf:" + shelf)
		if k.Inc.Dead() {
			return ErrCrashed
		}
	}
	nested := k.S.InTx()
	k.S.EnterTx()
	err := k.Real.ReadShelf(ctx, shelf, fn)
	k.S.LeaveTx()
	if !nested {
		k.yield("ReadShelf:" + shelf + ".done")
	}
	return err
}
