package seams

import (
	"container/heap"
	"errors"
	"fmt"
	"runtime/debug"
	"sort"
	"strings"
	"sync"
	"time"

	"github.com/nuts-foundation/go-did/did"
	"github.com/nuts-foundation/nuts-node/core"
	"github.com/nuts-foundation/nuts-node/network/transport"
	"github.com/nuts-foundation/nuts-node/network/transport/grpc"
	grpcLib "google.golang.org/grpc"
	"google.golang.org/protobuf/proto"
	"verifsim/simkit"
)

// Fault kinds of the simulated peer-to-peer transport.
const (
	NetDrop      = "net.drop"
	NetDup       = "net.duplicate"
	NetDelay     = "net.delay-reorder"
	NetSendErr   = "net.send-error"
	NetStale     = "net.stale-replay"
	NetPartition = "net.partition"
	NetHeal      = "net.heal"
)

// P2P is the simulated network between node endpoints. It replaces the gRPC connection
// manager: the real protocol instances call Connection.Send and are called through Handle.
type P2P struct {
	S  *simkit.Sim
	F  *FaultPoints
	mu sync.Mutex
	// endpoints by node name
	eps   map[string]*Endpoint
	links map[string]*link // key "a>b": delivery pump from a to b
	// MinLatency / Jitter of message delivery
	MinLatency time.Duration
	Jitter     time.Duration
	// Monitor sees every envelope handed to Send (before faults), serialised.
	Monitor func(from, to *Endpoint, conn *Conn, envelope interface{}, wire []byte)
	// Sent / Delivered counters per message type
	Sent      map[string]int
	Delivered map[string]int
	seq       uint64
	// recorded envelopes per link for stale replays (bounded)
	recorded map[string][][]byte
	Fair     bool // when set no faults are injected any more (fair suffix)
	// NewEnvelope creates an empty envelope for endpoints without a protocol instance.
	NewEnvelope func() interface{}
	// OnPanic, if set, catches a panic of a protocol handler (in the real connection manager
	// it would end the process) and reports it instead.
	OnPanic func(node, typ string, v interface{}, stack []byte)
	// OnHandled sees the result of every handled envelope.
	OnHandled func(node, typ string, err error)
}

// NewP2P builds an empty network.
func NewP2P(s *simkit.Sim, f *FaultPoints) *P2P {
	return &P2P{S: s, F: f, eps: map[string]*Endpoint{}, links: map[string]*link{}, MinLatency: 5 * time.Millisecond, Jitter: 20 * time.Millisecond,
		Sent: map[string]int{}, Delivered: map[string]int{}, recorded: map[string][][]byte{}}
}

// Endpoint is one node incarnation's attachment to the network.
type Endpoint struct {
	Name    string
	PeerID  transport.PeerID
	NodeDID did.DID
	Inc     *Incarnation
	Prot    grpc.Protocol
	CM      *ConnManager
	List    *ConnList
	// OnMessage, if set, receives messages instead of Prot (byzantine / scripted peers).
	OnMessage func(from *Endpoint, conn *Conn, envelope interface{})
	p2p       *P2P
}

// ConnManager is the transport.ConnectionManager given to the Network engine.
type ConnManager struct {
	mu  sync.Mutex
	obs []transport.StreamStateObserverFunc
	ep  *Endpoint
}

func (c *ConnManager) Diagnostics() []core.DiagnosticResult    { return nil }
func (c *ConnManager) Connect(string, did.DID, *time.Duration) {}
func (c *ConnManager) Peers() []transport.Peer {
	if c.ep == nil {
		return nil
	}
	var r []transport.Peer
	for _, x := range c.ep.List.All() {
		r = append(r, x.Peer())
	}
	return r
}
func (c *ConnManager) Contacts() []transport.Contact { return nil }
func (c *ConnManager) RegisterObserver(cb transport.StreamStateObserverFunc) {
	c.mu.Lock()
	c.obs = append(c.obs, cb)
	c.mu.Unlock()
}
func (c *ConnManager) Start() error { return nil }
func (c *ConnManager) Stop()        {}
func (c *ConnManager) notify(peer transport.Peer, st transport.StreamState, prot transport.Protocol) {
	c.mu.Lock()
	obs := append([]transport.StreamStateObserverFunc(nil), c.obs...)
	c.mu.Unlock()
	for _, o := range obs {
		o(peer, st, prot)
	}
}

// Registrar is a no-op gRPC service registrar.
type Registrar struct{}

func (Registrar) RegisterService(*grpcLib.ServiceDesc, interface{}) {}

// ConnList is the grpc.ConnectionList of an endpoint.
type ConnList struct {
	mu    sync.Mutex
	conns []*Conn
}

func match(c grpc.Connection, q []grpc.Predicate) bool {
	for _, p := range q {
		if !p.Match(c) {
			return false
		}
	}
	return true
}
func (l *ConnList) Get(q ...grpc.Predicate) grpc.Connection {
	l.mu.Lock()
	defer l.mu.Unlock()
	for _, c := range l.conns {
		if match(c, q) {
			return c
		}
	}
	return nil
}
func (l *ConnList) All() []grpc.Connection {
	l.mu.Lock()
	defer l.mu.Unlock()
	r := make([]grpc.Connection, 0, len(l.conns))
	for _, c := range l.conns {
		r = append(r, c)
	}
	return r
}
func (l *ConnList) AllMatching(q ...grpc.Predicate) []grpc.Connection {
	l.mu.Lock()
	defer l.mu.Unlock()
	var r []grpc.Connection
	for _, c := range l.conns {
		if match(c, q) {
			r = append(r, c)
		}
	}
	return r
}
func (l *ConnList) add(c *Conn) { l.mu.Lock(); l.conns = append(l.conns, c); l.mu.Unlock() }
func (l *ConnList) remove(c *Conn) {
	l.mu.Lock()
	for i, x := range l.conns {
		if x == c {
			l.conns = append(l.conns[:i], l.conns[i+1:]...)
			break
		}
	}
	l.mu.Unlock()
}

// Conn is the connection object one endpoint holds for a remote peer. Only the exported
// methods of grpc.Connection are implemented (protocol v2 uses no others).
type Conn struct {
	grpc.Connection
	Owner     *Endpoint
	Remote    *Endpoint
	peer      transport.Peer
	mu        sync.Mutex
	connected bool
	back      *Conn
}

func (c *Conn) Peer() transport.Peer  { return c.peer }
func (c *Conn) IsConnected() bool     { c.mu.Lock(); defer c.mu.Unlock(); return c.connected }
func (c *Conn) IsAuthenticated() bool { return c.peer.Authenticated }

// ErrBacklog mirrors the real connection's "backlog full" failure.
var ErrBacklog = errors.New("sim: peer's outbound message backlog has reached max desired capacity, message is dropped")

// Send is what protocol code calls to transmit an envelope.
func (c *Conn) Send(_ grpc.Protocol, envelope interface{}, _ bool) error {
	p := c.Owner.p2p
	if c.Owner.Inc.Dead() {
		return ErrCrashed
	}
	if !c.IsConnected() {
		return grpc.ErrNoConnection
	}
	wire, err := proto.Marshal(envelope.(proto.Message))
	if err != nil {
		return err
	}
	typ := msgType(envelope)
	if p.Monitor != nil {
		p.Monitor(c.Owner, c.Remote, c, envelope, wire)
	}
	lk := c.Owner.Name + ">" + c.Remote.Name
	p.mu.Lock()
	p.Sent[typ]++
	fair := p.Fair
	if rec := p.recorded[lk]; len(rec) < 64 {
		p.recorded[lk] = append(rec, wire)
	}
	p.mu.Unlock()
	if !fair {
		if p.F.Hit(NetSendErr, lk+" "+typ) {
			return ErrBacklog
		}
		if p.F.Hit(NetDrop, lk+" "+typ) {
			return nil
		}
	}
	delay := p.MinLatency
	if !fair && p.F.Hit(NetDelay, lk+" "+typ) {
		delay += time.Duration(1+p.S.D.Decide("net.delay-amount "+lk, 40)) * 250 * time.Millisecond
	}
	p.enqueue(c, wire, typ, delay)
	if !fair && p.F.Hit(NetDup, lk+" "+typ) {
		p.enqueue(c, wire, typ, delay+time.Duration(1+p.S.D.Decide("net.dup-delay "+lk, 20))*100*time.Millisecond)
	}
	return nil
}

func msgType(envelope interface{}) string {
	s := fmt.Sprintf("%T", MessageOf(envelope))
	if i := strings.LastIndex(s, "_"); i >= 0 {
		s = s[i+1:]
	}
	return s
}

// MessageOf extracts the oneof member of an envelope; set by the world package, which knows
// the protocol's envelope type.
var MessageOf = func(envelope interface{}) interface{} { return envelope }

type item struct {
	at   time.Time
	seq  uint64
	wire []byte
	typ  string
	conn *Conn // sender side connection
}
type itemHeap []*item

func (h itemHeap) Len() int { return len(h) }
func (h itemHeap) Less(i, j int) bool {
	if !h[i].at.Equal(h[j].at) {
		return h[i].at.Before(h[j].at)
	}
	return h[i].seq < h[j].seq
}
func (h itemHeap) Swap(i, j int)       { h[i], h[j] = h[j], h[i] }
func (h *itemHeap) Push(x interface{}) { *h = append(*h, x.(*item)) }
func (h *itemHeap) Pop() interface{} {
	o := *h
	x := o[len(o)-1]
	*h = o[:len(o)-1]
	return x
}

// link is the ordered delivery pump of one direction between two nodes: like a gRPC stream's
// receive loop it hands one message at a time to the receiving protocol.
type link struct {
	key    string
	mu     sync.Mutex
	q      itemHeap
	signal chan struct{}
	stop   chan struct{}
}

func (p *P2P) enqueue(c *Conn, wire []byte, typ string, delay time.Duration) {
	key := c.Owner.Name + ">" + c.Remote.Name
	p.mu.Lock()
	lk := p.links[key]
	if lk == nil {
		lk = &link{key: key, signal: make(chan struct{}, 1), stop: make(chan struct{})}
		p.links[key] = lk
		go p.pump(lk)
	}
	p.seq++
	it := &item{at: time.Now().Add(delay), seq: p.seq, wire: wire, typ: typ, conn: c}
	p.mu.Unlock()
	lk.mu.Lock()
	heap.Push(&lk.q, it)
	lk.mu.Unlock()
	select {
	case lk.signal <- struct{}{}:
	default:
	}
}

func (p *P2P) pump(lk *link) {
	p.S.Bind("net " + lk.key)
	for {
		lk.mu.Lock()
		var next *item
		if lk.q.Len() > 0 {
			next = lk.q[0]
		}
		lk.mu.Unlock()
		if next == nil {
			select {
			case <-lk.signal:
				continue
			case <-lk.stop:
				return
			}
		}
		if d := time.Until(next.at); d > 0 {
			t := time.NewTimer(d)
			select {
			case <-t.C:
			case <-lk.signal:
				t.Stop()
				continue
			case <-lk.stop:
				t.Stop()
				return
			}
		}
		lk.mu.Lock()
		if lk.q.Len() == 0 || lk.q[0] != next {
			lk.mu.Unlock()
			continue
		}
		heap.Pop(&lk.q)
		lk.mu.Unlock()
		p.deliver(next)
	}
}

func (p *P2P) deliver(it *item) {
	c := it.conn
	// the message is lost if either side went away or the connection was cut meanwhile
	if !c.IsConnected() || c.Remote.Inc.Dead() || c.back == nil || !c.back.IsConnected() {
		return
	}
	p.S.Yield("deliver " + it.typ)
	if !c.IsConnected() || c.Remote.Inc.Dead() || c.back == nil || !c.back.IsConnected() {
		return
	}
	to := c.Remote
	p.mu.Lock()
	p.Delivered[it.typ]++
	p.mu.Unlock()
	if to.OnMessage != nil {
		env := c.Owner.newEnvelope()
		if env != nil && proto.Unmarshal(it.wire, env.(proto.Message)) == nil {
			to.OnMessage(c.Owner, c.back, env)
		}
		return
	}
	env := to.Prot.CreateEnvelope()
	if err := proto.Unmarshal(it.wire, env.(proto.Message)); err != nil {
		return
	}
	if p.OnPanic != nil {
		defer func() {
			if v := recover(); v != nil {
				p.OnPanic(to.Name, it.typ, v, debug.Stack())
			}
		}()
	}
	err := to.Prot.Handle(c.back, env)
	if p.OnHandled != nil {
		p.OnHandled(to.Name, it.typ, err)
	}
}

func (e *Endpoint) newEnvelope() interface{} {
	if e.Prot != nil {
		return e.Prot.CreateEnvelope()
	}
	if e.p2p.NewEnvelope != nil {
		return e.p2p.NewEnvelope()
	}
	return nil
}

// AddEndpoint registers a node incarnation. The connection manager and list must be the
// objects that were given to the node's protocol.
func (p *P2P) AddEndpoint(e *Endpoint) {
	e.p2p = p
	if e.List == nil {
		e.List = &ConnList{}
	}
	if e.CM == nil {
		e.CM = &ConnManager{}
	}
	e.CM.ep = e
	p.mu.Lock()
	p.eps[e.Name] = e
	p.mu.Unlock()
}

// Endpoint returns the current endpoint of a node name.
func (p *P2P) Endpoint(name string) *Endpoint { p.mu.Lock(); defer p.mu.Unlock(); return p.eps[name] }

// PeerFunc decides how endpoint "remote" looks to endpoint "owner" (authentication result).
type PeerFunc func(owner, remote *Endpoint) transport.Peer

// DefaultPeer: unauthenticated peer with the remote's peer id.
func DefaultPeer(owner, remote *Endpoint) transport.Peer {
	return transport.Peer{ID: remote.PeerID, Address: remote.Name + ".sim:5555"}
}

// Connect creates the two connection objects between a and b and tells both protocols.
func (p *P2P) Connect(a, b string, pf PeerFunc) bool {
	ea, eb := p.Endpoint(a), p.Endpoint(b)
	if ea == nil || eb == nil || ea.Inc.Dead() || eb.Inc.Dead() {
		return false
	}
	if p.connOf(ea, eb) != nil {
		return false
	}
	if pf == nil {
		pf = DefaultPeer
	}
	ab := &Conn{Owner: ea, Remote: eb, peer: pf(ea, eb), connected: true}
	ba := &Conn{Owner: eb, Remote: ea, peer: pf(eb, ea), connected: true}
	ab.back, ba.back = ba, ab
	ea.List.add(ab)
	eb.List.add(ba)
	p.S.Tr.Add("CONNECT %s %s", a, b)
	if ea.Prot != nil {
		ea.CM.notify(ab.peer, transport.StateConnected, ea.Prot)
	}
	if eb.Prot != nil {
		eb.CM.notify(ba.peer, transport.StateConnected, eb.Prot)
	}
	return true
}

func (p *P2P) connOf(from, to *Endpoint) *Conn {
	from.List.mu.Lock()
	defer from.List.mu.Unlock()
	for _, c := range from.List.conns {
		if c.Remote == to {
			return c
		}
	}
	return nil
}

// ConnBetween returns the connection object "from" holds for "to" (nil if not connected).
func (p *P2P) ConnBetween(from, to string) *Conn {
	ef, et := p.Endpoint(from), p.Endpoint(to)
	if ef == nil || et == nil {
		return nil
	}
	return p.connOf(ef, et)
}

// Disconnect cuts the connection between a and b; queued messages are lost.
func (p *P2P) Disconnect(a, b string) bool {
	ea, eb := p.Endpoint(a), p.Endpoint(b)
	if ea == nil || eb == nil {
		return false
	}
	ab := p.connOf(ea, eb)
	if ab == nil {
		return false
	}
	ba := ab.back
	for _, c := range []*Conn{ab, ba} {
		c.mu.Lock()
		c.connected = false
		c.mu.Unlock()
		c.Owner.List.remove(c)
	}
	p.S.Tr.Add("DISCONNECT %s %s", a, b)
	if ea.Prot != nil && !ea.Inc.Dead() {
		ea.CM.notify(ab.peer, transport.StateDisconnected, ea.Prot)
	}
	if eb.Prot != nil && !eb.Inc.Dead() {
		eb.CM.notify(ba.peer, transport.StateDisconnected, eb.Prot)
	}
	return true
}

// DisconnectAll cuts every connection of a node (used when it stops).
func (p *P2P) DisconnectAll(name string) {
	e := p.Endpoint(name)
	if e == nil {
		return
	}
	var others []string
	for _, c := range e.List.All() {
		others = append(others, c.(*Conn).Remote.Name)
	}
	sort.Strings(others)
	for _, o := range others {
		p.Disconnect(name, o)
	}
}

// Inject lets a scripted endpoint send an envelope over its connection to "to".
func (p *P2P) Inject(from, to string, envelope interface{}) error {
	c := p.ConnBetween(from, to)
	if c == nil {
		return grpc.ErrNoConnection
	}
	return c.Send(nil, envelope, true)
}

// ReplayStale re-sends an envelope recorded earlier on the link from>to (stale response).
func (p *P2P) ReplayStale(from, to string, pick int) bool {
	c := p.ConnBetween(from, to)
	if c == nil {
		return false
	}
	p.mu.Lock()
	rec := p.recorded[from+">"+to]
	p.mu.Unlock()
	if len(rec) == 0 {
		return false
	}
	wire := rec[pick%len(rec)]
	p.S.Faults.Inc(NetStale)
	p.S.Tr.Add("FAULT %s %s>%s", NetStale, from, to)
	p.enqueue(c, wire, "stale", p.MinLatency)
	return true
}

// InFlight returns the number of queued messages on all links.
func (p *P2P) InFlight() int {
	p.mu.Lock()
	lks := make([]*link, 0, len(p.links))
	for _, l := range p.links {
		lks = append(lks, l)
	}
	p.mu.Unlock()
	n := 0
	for _, l := range lks {
		l.mu.Lock()
		n += l.q.Len()
		l.mu.Unlock()
	}
	return n
}

// Stop ends all delivery pumps.
func (p *P2P) Stop() {
	p.mu.Lock()
	for _, l := range p.links {
		close(l.stop)
	}
	p.links = map[string]*link{}
	p.mu.Unlock()
}
