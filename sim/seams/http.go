package seams

import (
	"bytes"
	"errors"
	"fmt"
	"io"
	"net/http"
	"strings"
	"sync"
	"sync/atomic"
	"time"

	"verifsim/simkit"
)

// Fault kinds of the simulated HTTP transport.
const (
	HTTPReqLost  = "http.request-lost"  // the handler never runs, the caller sees an error
	HTTPRespLost = "http.response-lost" // the handler ran, the caller sees an error
	HTTP5xx      = "http.5xx"           // the handler does not run, the caller gets 503
	HTTPSlow     = "http.slow"          // the response arrives after a long virtual delay (past client timeouts)
	HTTPDelay    = "http.delay"         // short delivery delay
)

// HTTPRecord is one outbound request as seen by the transport.
type HTTPRecord struct {
	Step     int
	DoneStep int // scheduler step at which the caller got its answer
	At       time.Duration
	From     string // label of the calling goroutine
	Method   string
	URL      string
	Scheme   string
	Host     string
	Path     string
	Status   int
	Fault    string
	ReqBody  []byte
	RespBody []byte
	Location string
	// ReqHeader / RespHeader hold the headers in wire form (only with KeepBodies).
	ReqHeader  string
	RespHeader string
}

// HTTPHandler serves a request in-process (a node's router or a scripted remote server).
type HTTPHandler func(req *http.Request) *http.Response

// HTTP routes every outbound request of every node to the target host's handler in-process.
type HTTP struct {
	S  *simkit.Sim
	F  *FaultPoints
	mu sync.Mutex
	// Hosts maps "host[:port]" to a handler.
	Hosts map[string]HTTPHandler
	Log   []HTTPRecord
	// KeepBodies stores request/response bodies in the log (canary scans, revocation knowledge).
	KeepBodies bool
	// TamperRequest / TamperResponse may change a request body / response body in transit.
	TamperRequest  func(req *http.Request, body []byte) []byte
	TamperResponse func(req *http.Request, status int, body []byte) []byte
	// Observe sees every completed exchange.
	Observe func(rec *HTTPRecord)
	// Down lists hosts that are unreachable (connection refused).
	Down map[string]bool
	// LoseIf, if it returns true, makes the transport lose this request before the handler runs
	// (the request is still recorded with its body).
	LoseIf func(req *http.Request) bool
}

// NewHTTP creates an empty HTTP world.
func NewHTTP(s *simkit.Sim, f *FaultPoints) *HTTP {
	return &HTTP{S: s, F: f, Hosts: map[string]HTTPHandler{}, Down: map[string]bool{}}
}

var currentHTTP atomic.Pointer[HTTP]

// SetCurrentHTTP makes h the target of the process-wide round tripper.
func SetCurrentHTTP(h *HTTP) { currentHTTP.Store(h) }

// Dispatcher is registered once per process for the https and http schemes.
type Dispatcher struct{}

func (Dispatcher) RoundTrip(req *http.Request) (*http.Response, error) {
	h := currentHTTP.Load()
	if h == nil {
		return nil, errors.New("sim: no HTTP world")
	}
	return h.RoundTrip(req)
}

// Handle registers a handler for a host.
func (h *HTTP) Handle(host string, fn HTTPHandler) {
	h.mu.Lock()
	h.Hosts[host] = fn
	h.mu.Unlock()
}

// RoundTrip implements http.RoundTripper.
func (h *HTTP) RoundTrip(req *http.Request) (*http.Response, error) {
	rec := HTTPRecord{Step: h.S.Steps, At: h.S.Now(), From: h.S.Label(), Method: req.Method, URL: req.URL.String(), Scheme: req.URL.Scheme, Host: req.URL.Host, Path: req.URL.Path}
	var body []byte
	if req.Body != nil {
		body, _ = io.ReadAll(req.Body)
		req.Body.Close()
	}
	site := req.Method + " " + req.URL.Host + pathClass(req.URL.Path)
	finish := func(resp *http.Response, err error) (*http.Response, error) {
		if resp != nil {
			rec.Status = resp.StatusCode
			rec.Location = resp.Header.Get("Location")
		}
		rec.DoneStep = h.S.Steps
		h.mu.Lock()
		h.Log = append(h.Log, rec)
		h.mu.Unlock()
		if h.Observe != nil {
			h.Observe(&rec)
		}
		return resp, err
	}
	h.S.Yield("http " + site)
	if err := req.Context().Err(); err != nil {
		return finish(nil, err)
	}
	h.mu.Lock()
	handler := h.Hosts[req.URL.Host]
	down := h.Down[req.URL.Host]
	h.mu.Unlock()
	if handler == nil || down {
		rec.Fault = "no-such-host"
		return finish(nil, fmt.Errorf("sim: dial tcp %s: connection refused", req.URL.Host))
	}
	if h.LoseIf != nil && h.LoseIf(req) {
		rec.Fault = HTTPReqLost
		rec.ReqBody = body
		rec.ReqHeader = headerString(req.Header)
		return finish(nil, errors.New("sim: connection reset before the request was sent"))
	}
	if h.F.Hit(HTTPReqLost, site) {
		rec.Fault = HTTPReqLost
		return finish(nil, errors.New("sim: connection reset before the request was sent"))
	}
	if h.F.Hit(HTTP5xx, site) {
		rec.Fault = HTTP5xx
		return finish(&http.Response{StatusCode: 503, Status: "503 Service Unavailable", Header: http.Header{"Content-Type": []string{"text/plain"}},
			Body: io.NopCloser(strings.NewReader("sim: unavailable")), Request: req, ProtoMajor: 1, ProtoMinor: 1}, nil)
	}
	holding := h.S.Holding() // no waiting in virtual time for a caller that holds a registered mutex
	if !holding && h.F.Hit(HTTPDelay, site) {
		time.Sleep(time.Duration(50+h.S.D.Decide("http.delay-ms "+site, 2000)) * time.Millisecond)
	}
	if h.TamperRequest != nil && body != nil {
		body = h.TamperRequest(req, body)
	}
	if h.KeepBodies {
		rec.ReqBody = body
		rec.ReqHeader = headerString(req.Header)
	}
	r2 := req.Clone(req.Context())
	r2.Body = io.NopCloser(bytes.NewReader(body))
	r2.ContentLength = int64(len(body))
	r2.RequestURI = req.URL.RequestURI()
	if r2.Host == "" {
		r2.Host = req.URL.Host
	}
	r2.RemoteAddr = "10.0.0.9:4711"
	resp := handler(r2)
	respBody, _ := io.ReadAll(resp.Body)
	resp.Body.Close()
	if h.TamperResponse != nil {
		respBody = h.TamperResponse(req, resp.StatusCode, respBody)
	}
	if h.KeepBodies {
		rec.RespBody = respBody
		rec.RespHeader = headerString(resp.Header)
	}
	resp.Body = io.NopCloser(bytes.NewReader(respBody))
	resp.ContentLength = int64(len(respBody))
	resp.Request = req
	if h.F.Hit(HTTPRespLost, site) {
		rec.Fault = HTTPRespLost
		rec.Status = resp.StatusCode
		return finish(nil, errors.New("sim: connection reset while reading the response"))
	}
	if !holding && h.F.Hit(HTTPSlow, site) {
		rec.Fault = HTTPSlow
		select {
		case <-time.After(2 * time.Minute):
		case <-req.Context().Done():
			return finish(nil, req.Context().Err())
		}
	}
	h.S.Yield("http-done " + site)
	return finish(resp, nil)
}

func headerString(h http.Header) string {
	var b bytes.Buffer
	_ = h.Write(&b)
	return b.String()
}

// pathClass shortens a path to a stable label (identifiers and secrets removed).
func pathClass(p string) string {
	parts := strings.Split(p, "/")
	for i, x := range parts {
		if len(x) > 24 || strings.ContainsAny(x, ":%") {
			parts[i] = "*"
		}
	}
	s := strings.Join(parts, "/")
	if len(s) > 80 {
		s = s[:80]
	}
	return s
}

// Requests returns a copy of the log.
func (h *HTTP) Requests() []HTTPRecord {
	h.mu.Lock()
	defer h.mu.Unlock()
	return append([]HTTPRecord(nil), h.Log...)
}

// Since returns the records added after the first n.
func (h *HTTP) Since(n int) []HTTPRecord {
	h.mu.Lock()
	defer h.mu.Unlock()
	if n > len(h.Log) {
		n = len(h.Log)
	}
	return append([]HTTPRecord(nil), h.Log[n:]...)
}

// Count returns the number of logged requests.
func (h *HTTP) Count() int { h.mu.Lock(); defer h.mu.Unlock(); return len(h.Log) }
