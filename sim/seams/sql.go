package seams

import (
	"context"
	"database/sql"
	"errors"
	"strings"
	"sync/atomic"

	"gorm.io/gorm"
	"verifsim/simkit"
)

// Fault kinds of the SQL seam.
const (
	SQLStmtErr           = "sql.statement-error"     // a statement fails (inside or outside a transaction)
	SQLCommitFail        = "sql.commit-fail"         // the commit fails: nothing is committed, the caller sees an error
	SQLCommitLost        = "sql.commit-ack-lost"     // the commit succeeds but the caller sees an error
	SQLCrashBeforeCommit = "crash.sql-before-commit" // process stops before the commit
	SQLCrashAfterCommit  = "crash.sql-after-commit"  // process stops right after the commit
)

// ErrSQLInjected marks injected SQL failures.
var ErrSQLInjected = errors.New("sim: injected SQL failure")

// ErrSQLCrashed is what a dead incarnation's SQL calls return.
var ErrSQLCrashed = errors.New("sim: process stopped (sql: database is closed)")

// SQL wraps the node's real *sql.DB as gorm.ConnPool: transactions and stand-alone statements
// are scheduling points, statements and commits can fail, commits are crash points.
type SQL struct {
	Real *sql.DB
	S    *simkit.Sim
	Inc  *Incarnation
	Name string
	F    *FaultPoints
	// Commits counts committed transactions; TxOpen is >0 while a transaction is open.
	Commits atomic.Int64
	TxOpen  atomic.Int32
	// OnCommit observes every committed transaction with the tables it wrote.
	OnCommit func(tables []string)
	// NoYield makes the seam transparent to the scheduler.
	NoYield bool
}

var _ gorm.ConnPool = (*SQL)(nil)
var _ gorm.ConnPoolBeginner = (*SQL)(nil)
var _ gorm.GetDBConnector = (*SQL)(nil)

func (q *SQL) yield(site string) {
	if !q.NoYield {
		q.S.Yield(q.Name + " " + site)
	}
}

// stmtClass names a statement by its verb and table for labels.
func stmtClass(query string) string {
	f := strings.Fields(query)
	if len(f) == 0 {
		return "?"
	}
	verb := strings.ToUpper(f[0])
	table := ""
	for i, w := range f {
		u := strings.ToUpper(w)
		if (u == "FROM" || u == "INTO" || u == "UPDATE") && i+1 < len(f) {
			table = strings.Trim(f[i+1], "`\"()")
			break
		}
	}
	return verb + " " + table
}

func writes(query string) (string, bool) {
	c := stmtClass(query)
	return c, strings.HasPrefix(c, "INSERT") || strings.HasPrefix(c, "UPDATE") || strings.HasPrefix(c, "DELETE")
}

func (q *SQL) GetDBConn() (*sql.DB, error) { return q.Real, nil }

func (q *SQL) PrepareContext(ctx context.Context, query string) (*sql.Stmt, error) {
	if q.Inc.Dead() {
		return nil, ErrSQLCrashed
	}
	return q.Real.PrepareContext(ctx, query)
}

func (q *SQL) ExecContext(ctx context.Context, query string, args ...interface{}) (sql.Result, error) {
	if q.Inc.Dead() {
		return nil, ErrSQLCrashed
	}
	c := stmtClass(query)
	q.yield("exec " + c)
	if q.Inc.Dead() {
		return nil, ErrSQLCrashed
	}
	if q.F.Hit(SQLStmtErr, q.Name+" "+c) {
		return nil, ErrSQLInjected
	}
	r, err := q.Real.ExecContext(ctx, query, args...)
	if err == nil {
		q.Commits.Add(1)
		if q.OnCommit != nil {
			q.OnCommit([]string{c})
		}
	}
	q.yield("exec-done " + c)
	return r, err
}

func (q *SQL) QueryContext(ctx context.Context, query string, args ...interface{}) (*sql.Rows, error) {
	if q.Inc.Dead() {
		return nil, ErrSQLCrashed
	}
	c := stmtClass(query)
	q.yield("query " + c)
	if q.Inc.Dead() {
		return nil, ErrSQLCrashed
	}
	if q.F.Hit(SQLStmtErr, q.Name+" "+c) {
		return nil, ErrSQLInjected
	}
	return q.Real.QueryContext(ctx, query, args...)
}

func (q *SQL) QueryRowContext(ctx context.Context, query string, args ...interface{}) *sql.Row {
	if !q.Inc.Dead() {
		q.yield("queryrow " + stmtClass(query))
	}
	return q.Real.QueryRowContext(ctx, query, args...)
}

// BeginTx starts a transaction on the real database.
func (q *SQL) BeginTx(ctx context.Context, opts *sql.TxOptions) (gorm.ConnPool, error) {
	if q.Inc.Dead() {
		return nil, ErrSQLCrashed
	}
	q.yield("begin")
	if q.Inc.Dead() {
		return nil, ErrSQLCrashed
	}
	tx, err := q.Real.BeginTx(ctx, opts)
	if err != nil {
		return nil, err
	}
	q.TxOpen.Add(1)
	return &sqlTx{q: q, tx: tx}, nil
}

type sqlTx struct {
	q      *SQL
	tx     *sql.Tx
	tables []string
	done   bool
}

var _ gorm.ConnPool = (*sqlTx)(nil)
var _ gorm.TxCommitter = (*sqlTx)(nil)

func (t *sqlTx) PrepareContext(ctx context.Context, query string) (*sql.Stmt, error) {
	return t.tx.PrepareContext(ctx, query)
}

func (t *sqlTx) ExecContext(ctx context.Context, query string, args ...interface{}) (sql.Result, error) {
	if t.q.Inc.Dead() {
		return nil, ErrSQLCrashed
	}
	c, w := writes(query)
	if t.q.F.Hit(SQLStmtErr, t.q.Name+" tx "+c) {
		return nil, ErrSQLInjected
	}
	if w {
		t.tables = append(t.tables, c)
	}
	return t.tx.ExecContext(ctx, query, args...)
}

func (t *sqlTx) QueryContext(ctx context.Context, query string, args ...interface{}) (*sql.Rows, error) {
	if t.q.Inc.Dead() {
		return nil, ErrSQLCrashed
	}
	c, w := writes(query)
	if t.q.F.Hit(SQLStmtErr, t.q.Name+" tx "+c) {
		return nil, ErrSQLInjected
	}
	if w {
		t.tables = append(t.tables, c)
	}
	return t.tx.QueryContext(ctx, query, args...)
}

func (t *sqlTx) QueryRowContext(ctx context.Context, query string, args ...interface{}) *sql.Row {
	if c, w := writes(query); w {
		t.tables = append(t.tables, c)
	}
	return t.tx.QueryRowContext(ctx, query, args...)
}

func (t *sqlTx) finish() {
	if !t.done {
		t.done = true
		t.q.TxOpen.Add(-1)
	}
}

func (t *sqlTx) Commit() error {
	q := t.q
	defer t.finish()
	site := q.Name + " commit " + strings.Join(uniq(t.tables), ",")
	if q.Inc.Dead() {
		_ = t.tx.Rollback()
		return ErrSQLCrashed
	}
	if len(t.tables) > 0 {
		if q.F.Hit(SQLCrashBeforeCommit, site) {
			_ = t.tx.Rollback()
			q.Inc.Kill(SQLCrashBeforeCommit + " " + site)
			return ErrSQLCrashed
		}
		if q.F.Hit(SQLCommitFail, site) {
			_ = t.tx.Rollback()
			return ErrSQLInjected
		}
	}
	if err := t.tx.Commit(); err != nil {
		return err
	}
	q.Commits.Add(1)
	if q.OnCommit != nil {
		q.OnCommit(uniq(t.tables))
	}
	if len(t.tables) > 0 {
		if q.F.Hit(SQLCrashAfterCommit, site) {
			q.Inc.Kill(SQLCrashAfterCommit + " " + site)
			return ErrSQLCrashed
		}
		if q.F.Hit(SQLCommitLost, site) {
			return ErrSQLInjected
		}
	}
	t.finish()
	q.yield("commit-done")
	return nil
}

func (t *sqlTx) Rollback() error {
	defer t.finish()
	return t.tx.Rollback()
}

func uniq(in []string) []string {
	seen := map[string]bool{}
	var out []string
	for _, x := range in {
		if !seen[x] {
			seen[x] = true
			out = append(out, x)
		}
	}
	return out
}
