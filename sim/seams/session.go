package seams

import (
	"context"
	"errors"
	"fmt"
	"strings"
	"sync"
	"time"

	"github.com/eko/gocache/lib/v4/store"
	"verifsim/simkit"
)

// SessionStore is the cache store underneath nuts-node's in-memory session database (given to
// it through the verif hook storage.NewSimSessionDatabase). Every single store operation is a
// scheduling point, so that the simulator can interleave e.g. the Get and the Delete of a
// GetAndDelete with the operations of another request. Expiry follows the virtual clock.
type SessionStore struct {
	S   *simkit.Sim
	Inc *Incarnation
	mu  sync.Mutex
	m   map[string]sessionEntry
	// Ops counts operations by kind.
	Ops map[string]int
	// OnOp observes every operation after it ran (kind, key, found).
	OnOp func(kind, key string, found bool)
	// F, if set, injects read failures (SessionGetErr).
	F *FaultPoints
	// KeepWrites records every value ever stored (for the key canary).
	KeepWrites bool
	Writes     []string
}

type sessionEntry struct {
	val any
	exp time.Time
}

// NewSessionStore creates an empty store.
func NewSessionStore(s *simkit.Sim, inc *Incarnation) *SessionStore {
	return &SessionStore{S: s, Inc: inc, m: map[string]sessionEntry{}, Ops: map[string]int{}}
}

var _ store.StoreInterface = (*SessionStore)(nil)

func keyClass(key string) string {
	if i := strings.LastIndex(key, "/"); i >= 0 {
		return key[:i]
	}
	return "-"
}

func (s *SessionStore) op(kind, key string) {
	s.S.Yield("session." + kind + " " + keyClass(key))
	s.mu.Lock()
	s.Ops[kind]++
	s.mu.Unlock()
}

// SessionGetErr: a read of the session store fails (a shared Redis or Memcached store that
// cannot be reached); the value stays as it is.
const SessionGetErr = "session.get-error"

// ErrSessionInjected is the injected read failure.
var ErrSessionInjected = errors.New("sim: injected session store failure")

func (s *SessionStore) Get(_ context.Context, key any) (any, error) {
	k := key.(string)
	s.op("Get", k)
	if s.F != nil && s.F.Hit(SessionGetErr, keyClass(k)) {
		if s.OnOp != nil {
			s.OnOp("Get!error", k, false)
		}
		return nil, ErrSessionInjected
	}
	s.mu.Lock()
	e, ok := s.m[k]
	if ok && !e.exp.IsZero() && time.Now().After(e.exp) {
		delete(s.m, k)
		ok = false
	}
	s.mu.Unlock()
	if s.OnOp != nil {
		s.OnOp("Get", k, ok)
	}
	if !ok {
		return nil, store.NotFoundWithCause(nil)
	}
	return e.val, nil
}

func (s *SessionStore) GetWithTTL(ctx context.Context, key any) (any, time.Duration, error) {
	k := key.(string)
	s.op("GetWithTTL", k)
	s.mu.Lock()
	e, ok := s.m[k]
	if ok && !e.exp.IsZero() && time.Now().After(e.exp) {
		delete(s.m, k)
		ok = false
	}
	s.mu.Unlock()
	if !ok {
		return nil, 0, store.NotFoundWithCause(nil)
	}
	return e.val, time.Until(e.exp), nil
}

func (s *SessionStore) Set(_ context.Context, key any, value any, options ...store.Option) error {
	k := key.(string)
	s.op("Set", k)
	opts := store.ApplyOptions(options...)
	e := sessionEntry{val: value}
	if opts.Expiration > 0 {
		e.exp = time.Now().Add(opts.Expiration)
	}
	s.mu.Lock()
	s.m[k] = e
	if s.KeepWrites && len(s.Writes) < 4000 {
		switch v := value.(type) {
		case []byte:
			s.Writes = append(s.Writes, k+"="+string(v))
		default:
			s.Writes = append(s.Writes, k+"="+fmt.Sprint(v))
		}
	}
	s.mu.Unlock()
	if s.OnOp != nil {
		s.OnOp("Set", k, true)
	}
	return nil
}

func (s *SessionStore) Delete(_ context.Context, key any) error {
	k := key.(string)
	s.op("Delete", k)
	s.mu.Lock()
	_, ok := s.m[k]
	delete(s.m, k)
	s.mu.Unlock()
	if s.OnOp != nil {
		s.OnOp("Delete", k, ok)
	}
	return nil
}

func (s *SessionStore) Invalidate(context.Context, ...store.InvalidateOption) error { return nil }
func (s *SessionStore) Clear(context.Context) error {
	s.mu.Lock()
	s.m = map[string]sessionEntry{}
	s.mu.Unlock()
	return nil
}
func (s *SessionStore) GetType() string { return "sim" }

// Keys lists the live keys (for oracles).
func (s *SessionStore) Keys() []string {
	s.mu.Lock()
	defer s.mu.Unlock()
	var out []string
	for k, e := range s.m {
		if e.exp.IsZero() || time.Now().Before(e.exp) {
			out = append(out, k)
		}
	}
	return out
}
