package simkit

import (
	"fmt"
	"regexp"
	"runtime"
	"sort"
	"strconv"
	"strings"
	"sync"
	"sync/atomic"
	"testing/synctest"
	"time"
)

// Violation is the first oracle failure of a run.
type Violation struct {
	Invariant string `json:"invariant"`
	Site      string `json:"site,omitempty"`
	Message   string `json:"message"`
	Step      int    `json:"step"`
	VTime     string `json:"virtual_time"`
}

// Task is a goroutine parked at a seam.
type Task struct {
	gid     int64
	label   string
	arrival int
	prio    int
	ch      chan struct{}
}

// Sim is the per-run simulator: it owns decisions, trace, counters and the cooperative
// scheduler. All of its use happens inside one synctest bubble.
type Sim struct {
	D      *Decider
	Tr     *Trace
	Faults Counters // fault kinds that actually fired
	Probes Counters // rare-branch probes that were hit
	Info   Counters // other per-run measurements

	mu       sync.Mutex
	parked   []*Task
	wake     chan struct{}
	rootG    int64
	enabled  atomic.Bool
	inTx     map[int64]int
	glabel   map[int64]string
	children map[string]int
	arrivals int

	Steps    int
	MaxSteps int
	NonFIFO  int
	Epoch    time.Time

	vmu       sync.Mutex
	violation *Violation
	overrun   bool

	// OnQuiesce callbacks are evaluated by the root at every quiescent point (cheap invariants).
	OnQuiesce []func()
	// PassThrough lists substrings of function names; a goroutine with such a frame on its
	// stack is never parked (it holds an in-memory mutex others may need).
	PassThrough []string
	// RootTag names what the root goroutine is doing (e.g. booting node n2); goroutines it starts
	// get it as the parent part of their label.
	RootTag string
	// HeldProbes report whether an in-memory mutex that spans seam calls is currently held. Only
	// one task runs at a time, so "held" at a seam means held by the caller: it must not park
	// (a goroutine blocking on that sync.Mutex would not be durably blocked and the bubble
	// could never become quiescent).
	HeldProbes []func() bool
}

// NewSim must be called inside the bubble by the goroutine that will be the root.
func NewSim(d *Decider) *Sim {
	s := &Sim{D: d, Tr: &Trace{}, wake: make(chan struct{}, 1), inTx: map[int64]int{}, glabel: map[int64]string{}, children: map[string]int{},
		rootG: Goid(), MaxSteps: 20000, Epoch: time.Now()}
	return s
}

// Goid returns the current goroutine id.
func Goid() int64 {
	var buf [64]byte
	n := runtime.Stack(buf[:], false)
	f := strings.Fields(string(buf[:n]))
	id, _ := strconv.ParseInt(f[1], 10, 64)
	return id
}

// Enable switches parking at seams on or off (off during synchronous set-up by the root).
func (s *Sim) Enable(on bool) { s.enabled.Store(on) }

// Now is the virtual time since the start of the run.
func (s *Sim) Now() time.Duration { return time.Since(s.Epoch) }

// Fail records the first violation of the run.
func (s *Sim) Fail(invariant, site, format string, args ...interface{}) {
	s.vmu.Lock()
	defer s.vmu.Unlock()
	if s.violation != nil {
		return
	}
	s.violation = &Violation{Invariant: invariant, Site: site, Message: fmt.Sprintf(format, args...), Step: s.Steps,
		VTime: s.Now().String()}
	s.Tr.Add("VIOLATION %s %s", invariant, site)
}

// Failed reports whether a violation was recorded.
func (s *Sim) Failed() bool { s.vmu.Lock(); defer s.vmu.Unlock(); return s.violation != nil }

// Violation returns the recorded violation or nil.
func (s *Sim) Violation() *Violation { s.vmu.Lock(); defer s.vmu.Unlock(); return s.violation }

// Overrun reports that the run hit its step budget (inconclusive, never a violation).
func (s *Sim) Overrun() bool { return s.overrun }

// IsRoot tells whether the caller is the root goroutine.
func (s *Sim) IsRoot() bool { return Goid() == s.rootG }

// EnterTx / LeaveTx mark the calling goroutine as being inside a store transaction: it is
// never parked there (it holds store locks that are not durable blocking points).
func (s *Sim) EnterTx() { g := Goid(); s.mu.Lock(); s.inTx[g]++; s.mu.Unlock() }
func (s *Sim) LeaveTx() {
	g := Goid()
	s.mu.Lock()
	s.inTx[g]--
	if s.inTx[g] <= 0 {
		delete(s.inTx, g)
	}
	s.mu.Unlock()
}

// InTx tells whether the calling goroutine is inside a store transaction.
func (s *Sim) InTx() bool { g := Goid(); s.mu.Lock(); defer s.mu.Unlock(); return s.inTx[g] > 0 }

// Bind gives the calling goroutine a stable label (workload tasks).
func (s *Sim) Bind(label string) { g := Goid(); s.mu.Lock(); s.glabel[g] = label; s.mu.Unlock() }

// Label returns the label bound to the calling goroutine ("" if none).
func (s *Sim) Label() string { g := Goid(); s.mu.Lock(); defer s.mu.Unlock(); return s.glabel[g] }

func (s *Sim) passThrough() bool {
	if len(s.PassThrough) == 0 {
		return false
	}
	pcs := make([]uintptr, 24)
	n := runtime.Callers(3, pcs)
	frames := runtime.CallersFrames(pcs[:n])
	for {
		fr, more := frames.Next()
		for _, p := range s.PassThrough {
			if strings.Contains(fr.Function, p) {
				return true
			}
		}
		if !more {
			break
		}
	}
	return false
}

var createdByRe = regexp.MustCompile(`created by (\S+) in goroutine (\d+)`)

// deriveLabel names a goroutine that nuts-node (not the workload) started: the label of the
// goroutine that created it, the creating function, and an ordinal. Labels are what scheduling
// priorities are keyed by, so that the same logical activity gets the same decisions in a
// replay even if unrelated activities arrive in another order.
func (s *Sim) deriveLabel(g int64, site string) string {
	buf := make([]byte, 1<<15)
	n := runtime.Stack(buf, false)
	m := createdByRe.FindSubmatch(buf[:n])
	if m == nil {
		return "?"
	}
	fn := string(m[1])
	if i := strings.LastIndex(fn, "/"); i >= 0 {
		fn = fn[i+1:]
	}
	pg, _ := strconv.ParseInt(string(m[2]), 10, 64)
	s.mu.Lock()
	defer s.mu.Unlock()
	parent, ok := s.glabel[pg]
	if !ok {
		if pg == s.rootG {
			parent = "root"
			if s.RootTag != "" {
				parent = s.RootTag
			}
		} else {
			parent = "?"
		}
	}
	// the first seam the goroutine touches is part of its name: goroutines started from a loop
	// over a Go map (one per notifier, per peer, ...) are told apart by what they work on
	key := parent + ">" + fn + "[" + site + "]"
	s.children[key]++
	lbl := fmt.Sprintf("%s#%d", key, s.children[key])
	if len(lbl) > 160 {
		lbl = "..." + lbl[len(lbl)-157:]
	}
	s.glabel[g] = lbl
	return lbl
}

// Yield parks the calling goroutine at a seam until the scheduler releases it. It returns at
// once for the root, while disabled, inside a store transaction, and for pass-through stacks.
func (s *Sim) Yield(site string) {
	if !s.enabled.Load() {
		return
	}
	g := Goid()
	if g == s.rootG {
		return
	}
	s.mu.Lock()
	if s.inTx[g] > 0 {
		s.mu.Unlock()
		return
	}
	lbl, known := s.glabel[g]
	s.mu.Unlock()
	if !known {
		lbl = s.deriveLabel(g, site)
	}
	if s.passThrough() {
		return
	}
	for _, p := range s.HeldProbes {
		if p() {
			return
		}
	}
	t := &Task{gid: g, label: lbl + "@" + site, ch: make(chan struct{})}
	// the scheduling priority of this park: keyed by the task label, drawn when it parks
	t.prio = s.D.Decide("prio "+t.label, 1<<16)
	s.mu.Lock()
	s.arrivals++
	t.arrival = s.arrivals
	s.parked = append(s.parked, t)
	s.mu.Unlock()
	select {
	case s.wake <- struct{}{}:
	default:
	}
	<-t.ch
}

// Go starts a workload task: a goroutine with a stable label that parks before it begins.
func (s *Sim) Go(label string, fn func()) {
	go func() {
		s.Bind(label)
		s.Yield("start")
		fn()
		g := Goid()
		s.mu.Lock()
		delete(s.glabel, g)
		s.mu.Unlock()
	}()
}

// Holding reports whether a registered in-memory mutex that spans seam calls is held (by the
// caller: only one task runs at a time). Seams must not make such a caller wait in virtual
// time either: another task would block on the mutex for real and the bubble never goes idle.
func (s *Sim) Holding() bool {
	for _, p := range s.HeldProbes {
		if p() {
			return true
		}
	}
	return false
}

// ParkedCount returns how many tasks wait for the scheduler.
func (s *Sim) ParkedCount() int { s.mu.Lock(); defer s.mu.Unlock(); return len(s.parked) }

// step waits for quiescence, evaluates invariants, and releases one parked task. It returns
// false when nothing is parked.
func (s *Sim) step() bool {
	synctest.Wait()
	select {
	case <-s.wake:
	default:
	}
	for _, f := range s.OnQuiesce {
		f()
	}
	s.mu.Lock()
	n := len(s.parked)
	if n == 0 {
		s.mu.Unlock()
		return false
	}
	if s.Steps >= s.MaxSteps {
		s.overrun = true
		// release everything in FIFO order, no more decisions: the run is winding down
		sort.SliceStable(s.parked, func(i, j int) bool { return s.parked[i].arrival < s.parked[j].arrival })
		t := s.parked[0]
		s.parked = s.parked[1:]
		s.mu.Unlock()
		close(t.ch)
		return true
	}
	// highest priority first; ties by label, then by arrival
	sort.SliceStable(s.parked, func(i, j int) bool {
		a, b := s.parked[i], s.parked[j]
		if a.prio != b.prio {
			return a.prio > b.prio
		}
		if a.label != b.label {
			return a.label < b.label
		}
		return a.arrival < b.arrival
	})
	i := 0
	t := s.parked[0]
	for _, o := range s.parked {
		if o.arrival < t.arrival {
			s.NonFIFO++ // the released task is not the one that has waited longest
			break
		}
	}
	s.parked = s.parked[1:]
	s.Steps++
	s.mu.Unlock()
	s.Tr.Add("%d %s %d/%d", s.Steps, t.label, i, n)
	close(t.ch)
	return true
}

// Settle runs scheduler steps until no task is parked (at the current virtual instant).
func (s *Sim) Settle() {
	for s.step() {
	}
}

// Advance lets d of virtual time pass, scheduling every task that parks meanwhile.
func (s *Sim) Advance(d time.Duration) {
	deadline := time.Now().Add(d)
	for {
		s.Settle()
		rem := time.Until(deadline)
		if rem <= 0 {
			break
		}
		timer := time.NewTimer(rem)
		select {
		case <-timer.C:
		case <-s.wake:
			timer.Stop()
		}
	}
	s.Settle()
}

// RunUntil schedules tasks and lets virtual time pass (in quanta of poll) until cond holds
// or max virtual time has passed. It returns whether cond held.
func (s *Sim) RunUntil(cond func() bool, max time.Duration, poll time.Duration) bool {
	deadline := time.Now().Add(max)
	for {
		s.Settle()
		if cond() {
			return true
		}
		rem := time.Until(deadline)
		if rem <= 0 || s.overrun {
			return false
		}
		if rem > poll {
			rem = poll
		}
		timer := time.NewTimer(rem)
		select {
		case <-timer.C:
		case <-s.wake:
			timer.Stop()
		}
	}
}

// Do runs fn as a labelled task and schedules until it has finished (other parked tasks are
// interleaved by the scheduler). Virtual time passes if fn blocks on timers; max bounds it.
func (s *Sim) Do(label string, max time.Duration, fn func()) bool {
	var done atomic.Bool
	s.Go(label, func() { defer done.Store(true); fn() })
	return s.RunUntil(done.Load, max, 50*time.Millisecond)
}
