// Package simkit is the deterministic-simulation kernel: label-keyed seeded decisions,
// a cooperative scheduler over real goroutines inside a testing/synctest bubble,
// trace recording, replay and minimisation.
package simkit

import (
	"crypto/sha256"
	"encoding/hex"
	"fmt"
	"hash/fnv"
	"sort"
	"sync"
)

// Decision is one consumed choice.
type Decision struct {
	Label string `json:"label"`
	K     int    `json:"k"`
	N     int    `json:"n"`
	V     int    `json:"v"`
}

// Decider answers every nondeterministic choice of a run. A choice is keyed by a stable
// label and a per-label counter; value 0 is always the benign default (FIFO, no fault,
// minimum delay). In replay mode every choice is taken from the overrides and labels the
// file does not know get 0.
type Decider struct {
	mu        sync.Mutex
	seed      uint64
	counters  map[string]int
	overrides map[string]map[int]int
	replay    bool
	log       []Decision
}

// NewDecider builds a decider for one run.
func NewDecider(seed uint64) *Decider {
	return &Decider{seed: seed, counters: map[string]int{}}
}

// NewReplayDecider builds a decider that only follows the given decisions.
func NewReplayDecider(seed uint64, decisions []Decision) *Decider {
	d := &Decider{seed: seed, counters: map[string]int{}, overrides: map[string]map[int]int{}, replay: true}
	for _, x := range decisions {
		m := d.overrides[x.Label]
		if m == nil {
			m = map[int]int{}
			d.overrides[x.Label] = m
		}
		m[x.K] = x.V
	}
	return d
}

func splitmix(x uint64) uint64 {
	x += 0x9E3779B97F4A7C15
	x = (x ^ (x >> 30)) * 0xBF58476D1CE4E5B9
	x = (x ^ (x >> 27)) * 0x94D049BB133111EB
	return x ^ (x >> 31)
}

// RunSeed derives the seed of run i from the check seed.
func RunSeed(verifSeed uint64, run int) uint64 {
	return splitmix(verifSeed*0x100000001B3 ^ splitmix(uint64(run)+0x51ED))
}

// Decide returns a value in [0,n). n<=1 returns 0 without consuming.
func (d *Decider) Decide(label string, n int) int {
	if n <= 1 {
		return 0
	}
	d.mu.Lock()
	defer d.mu.Unlock()
	k := d.counters[label]
	d.counters[label] = k + 1
	var v int
	if d.replay {
		if m, ok := d.overrides[label]; ok {
			v = m[k]
		}
		if v >= n || v < 0 {
			v = 0
		}
	} else {
		h := fnv.New64a()
		h.Write([]byte(label))
		x := splitmix(d.seed ^ h.Sum64() ^ splitmix(uint64(k)))
		v = int(x % uint64(n))
	}
	d.log = append(d.log, Decision{label, k, n, v})
	return v
}

// Chance is true with probability permille/1000; decision value 0 is always "false".
func (d *Decider) Chance(label string, permille int) bool {
	if permille <= 0 {
		return false
	}
	v := d.Decide(label, 1000)
	return v >= 1000-permille && v != 0
}

// Log returns the decisions consumed so far.
func (d *Decider) Log() []Decision {
	d.mu.Lock()
	defer d.mu.Unlock()
	out := make([]Decision, len(d.log))
	copy(out, d.log)
	return out
}

// NonZero returns only the decisions with a non-default value.
func NonZero(log []Decision) []Decision {
	var out []Decision
	for _, x := range log {
		if x.V != 0 {
			out = append(out, x)
		}
	}
	return out
}

// Trace is the sequence of scheduler steps and fault firings of a run.
type Trace struct {
	mu    sync.Mutex
	lines []string
	keep  bool
	h     [32]byte
	n     int
}

// Add appends a trace line (hash is chained so that long traces need not be kept).
func (t *Trace) Add(format string, args ...interface{}) {
	line := fmt.Sprintf(format, args...)
	t.mu.Lock()
	defer t.mu.Unlock()
	sum := sha256.New()
	sum.Write(t.h[:])
	sum.Write([]byte(line))
	copy(t.h[:], sum.Sum(nil))
	t.n++
	if t.keep || len(t.lines) < 400 {
		t.lines = append(t.lines, line)
	}
}

// Hash returns the chained hash of all lines.
func (t *Trace) Hash() string {
	t.mu.Lock()
	defer t.mu.Unlock()
	return hex.EncodeToString(t.h[:8])
}

// Lines returns the recorded lines (bounded unless keep was set).
func (t *Trace) Lines() []string {
	t.mu.Lock()
	defer t.mu.Unlock()
	return append([]string(nil), t.lines...)
}

// Len is the number of lines added.
func (t *Trace) Len() int { t.mu.Lock(); defer t.mu.Unlock(); return t.n }

// Counters is a concurrency-safe map of named counters (fault kinds fired, probes hit).
type Counters struct {
	mu sync.Mutex
	m  map[string]int
}

func (c *Counters) Inc(name string) { c.Addn(name, 1) }
func (c *Counters) Addn(name string, n int) {
	c.mu.Lock()
	if c.m == nil {
		c.m = map[string]int{}
	}
	c.m[name] += n
	c.mu.Unlock()
}
func (c *Counters) Get(name string) int { c.mu.Lock(); defer c.mu.Unlock(); return c.m[name] }
func (c *Counters) Map() map[string]int {
	c.mu.Lock()
	defer c.mu.Unlock()
	out := map[string]int{}
	for k, v := range c.m {
		out[k] = v
	}
	return out
}
func (c *Counters) Keys() []string {
	m := c.Map()
	ks := make([]string, 0, len(m))
	for k := range m {
		ks = append(ks, k)
	}
	sort.Strings(ks)
	return ks
}
