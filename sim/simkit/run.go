package simkit

import (
	"crypto/sha256"
	"encoding/hex"
	"encoding/json"
	"fmt"
	mathrand "math/rand"
	"os"
	"runtime"
	"sort"
	"strconv"
	"strings"
	"testing"
	"testing/cryptotest"
	"testing/synctest"
	"time"
)

// RunCtx is what a run body gets besides the simulator.
type RunCtx struct {
	T      *testing.T
	Dir    string // scratch directory on /dev/shm, removed after the run
	Tier   string
	Run    int
	Seed   uint64
	Sample interface{} // set by the body: a written-out description of the case explored
	// Nontrivial is set by the body when the run exercised the code under test under at least
	// one fault or one non-default scheduling decision.
	Nontrivial bool
	// Signature, if set by the body, identifies the explored case (interleaving / fault plan)
	// for counting distinct cases; otherwise the trace hash is used.
	Signature string
	// Plan is an explicit fault plan for enumeration runs (nil in sampled runs):
	// {"target": -1} counts the fault points of the case, {"target": k} fires point k.
	Plan map[string]int
	// PlanPoints is set by the body in a counting run: the number of fault points of the case.
	PlanPoints int
}

// Spec describes a property check.
type Spec struct {
	Property string
	World    string
	Body     func(s *Sim, rc *RunCtx)
	// Enumerate: each run index selects a case; the body is first run with Plan target -1 to
	// count the case's fault points and then once per point.
	Enumerate      bool
	MaxStepsPerRun int
}

// RunResult is the outcome of one simulated run.
type RunResult struct {
	Run       int    `json:"run"`
	Seed      uint64 `json:"seed"`
	TraceHash string `json:"trace_hash"`
	// DecisionHash is the hash of the sorted decision log: unlike the trace hash it does not
	// depend on the order in which independent activities happened to run (Go map iteration).
	DecisionHash string         `json:"decision_hash"`
	Signature    string         `json:"signature,omitempty"`
	Steps        int            `json:"steps"`
	NonFIFO      int            `json:"non_fifo"`
	VirtualS     float64        `json:"virtual_s"`
	WallMs       float64        `json:"wall_ms"`
	Faults       map[string]int `json:"faults,omitempty"`
	Probes       map[string]int `json:"probes,omitempty"`
	Info         map[string]int `json:"info,omitempty"`
	Violation    *Violation     `json:"violation,omitempty"`
	Overrun      bool           `json:"overrun,omitempty"`
	Nontrivial   bool           `json:"nontrivial"`
	Sample       interface{}    `json:"sample,omitempty"`
	Decisions    []Decision     `json:"decisions,omitempty"`
	TraceTail    []string       `json:"trace_tail,omitempty"`
	Panic        string         `json:"panic,omitempty"`
	Plan         map[string]int `json:"plan,omitempty"`
	PlanPoints   int            `json:"plan_points,omitempty"`
}

// ReplayFile is what is written for every reported violation.
type ReplayFile struct {
	Property  string            `json:"property"`
	Invariant string            `json:"invariant"`
	Site      string            `json:"site,omitempty"`
	World     string            `json:"world"`
	Tier      string            `json:"tier"`
	VerifSeed uint64            `json:"verif_seed"`
	Run       int               `json:"run_index"`
	Decisions []Decision        `json:"decisions"` // nil: re-run from the seed
	Violation *Violation        `json:"violation,omitempty"`
	TraceHash string            `json:"trace_hash,omitempty"`
	Minimised map[string]int    `json:"minimised,omitempty"`
	Repro     map[string]int    `json:"reproduction,omitempty"`
	Trace     []string          `json:"trace,omitempty"`
	Env       map[string]string `json:"env,omitempty"`
	Plan      map[string]int    `json:"plan,omitempty"`
}

func envInt(name string, def int) int {
	if v := os.Getenv(name); v != "" {
		if i, err := strconv.Atoi(v); err == nil {
			return i
		}
	}
	return def
}

func envU64(name string, def uint64) uint64 {
	if v := os.Getenv(name); v != "" {
		if i, err := strconv.ParseUint(v, 10, 64); err == nil {
			return i
		}
		if i, err := strconv.ParseInt(v, 10, 64); err == nil {
			return uint64(i)
		}
	}
	return def
}

// runOne executes one run inside a fresh bubble.
func runOne(t *testing.T, spec Spec, verifSeed uint64, run int, tier string, d *Decider, keepTrace bool, plan map[string]int) RunResult {
	res := RunResult{Run: run, Seed: RunSeed(verifSeed, run), Plan: plan}
	start := time.Now()
	// wall-clock watchdog (outside the bubble, real time): a run that does not end - a goroutine
	// spinning without ever blocking keeps the bubble from going idle - ends the process with
	// all stacks, and the driver takes it from there
	if wall := envInt("VERIF_RUN_WALL_S", 0); wall > 0 {
		wd := time.AfterFunc(time.Duration(wall)*time.Second, func() {
			fmt.Printf("RUN-HANG property=%s run=%d: no end after %d s of wall-clock time\n", spec.Property, run, wall)
			buf := make([]byte, 1<<20)
			os.Stdout.Write(buf[:runtime.Stack(buf, true)])
			os.Exit(3)
		})
		defer wd.Stop()
	}
	t.Run(fmt.Sprintf("run%d", run), func(t *testing.T) {
		cryptotest.SetGlobalRandom(t, res.Seed)
		mathrand.Seed(int64(res.Seed >> 1))
		dir, err := os.MkdirTemp("/dev/shm", "vsim-"+spec.Property+"-")
		if err != nil {
			t.Fatal(err)
		}
		defer os.RemoveAll(dir)
		var s *Sim
		rc := &RunCtx{T: t, Dir: dir, Tier: tier, Run: run, Seed: res.Seed, Plan: plan}
		func() {
			defer func() {
				if r := recover(); r != nil {
					msg := fmt.Sprint(r)
					if strings.Contains(msg, "blocked goroutines remain") || strings.Contains(msg, "deadlock: main bubble goroutine has exited") {
						return
					}
					buf := make([]byte, 1<<14)
					buf = buf[:runtime.Stack(buf, false)]
					res.Panic = msg + "\n" + string(buf)
				}
			}()
			synctest.Test(t, func(t *testing.T) {
				defer func() {
					// a panic on the bubble's root goroutine would kill the whole worker process
					if r := recover(); r != nil {
						buf := make([]byte, 1<<14)
						buf = buf[:runtime.Stack(buf, false)]
						res.Panic = fmt.Sprint(r) + "\n" + string(buf)
					}
				}()
				rc.T = t
				s = NewSim(d)
				if keepTrace {
					s.Tr.keep = true
				}
				if spec.MaxStepsPerRun > 0 {
					s.MaxSteps = spec.MaxStepsPerRun
				}
				spec.Body(s, rc)
				s.Enable(false)
				res.VirtualS = s.Now().Seconds()
			})
		}()
		if s != nil {
			res.TraceHash = s.Tr.Hash()
			res.DecisionHash = decisionHash(d.Log())
			res.Steps = s.Steps
			res.NonFIFO = s.NonFIFO
			res.Faults = s.Faults.Map()
			res.Probes = s.Probes.Map()
			res.Info = s.Info.Map()
			res.Violation = s.Violation()
			res.Overrun = s.Overrun()
			res.Nontrivial = rc.Nontrivial
			res.Sample = rc.Sample
			res.Signature = rc.Signature
			res.PlanPoints = rc.PlanPoints
			if res.Violation != nil || keepTrace {
				res.Decisions = d.Log()
				lines := s.Tr.Lines()
				if len(lines) > 200 {
					lines = lines[len(lines)-200:]
				}
				res.TraceTail = lines
			}
		}
	})
	res.WallMs = float64(time.Since(start).Microseconds()) / 1000
	return res
}

// PartOutput is what one worker process writes.
type PartOutput struct {
	Property   string      `json:"property"`
	VerifSeed  uint64      `json:"verif_seed"`
	Tier       string      `json:"tier"`
	From       int         `json:"from"`
	To         int         `json:"to"`
	Results    []RunResult `json:"results"`
	WallS      float64     `json:"wall_s"`
	Replay     *ReplayFile `json:"replay,omitempty"`
	Reproduced *bool       `json:"reproduced,omitempty"`
	GoMaxProcs int         `json:"gomaxprocs"`
}

func writeJSON(path string, v interface{}) {
	b, err := json.MarshalIndent(v, "", " ")
	if err != nil {
		panic(err)
	}
	tmp := path + ".tmp"
	if err := os.WriteFile(tmp, b, 0o644); err != nil {
		panic(err)
	}
	os.Rename(tmp, path)
}

// Main is the entry point of every property check (called from a Test function).
//
//	VERIF_SEED, VERIF_TIER, VERIF_RUN_FROM, VERIF_RUN_TO, VERIF_BUDGET_S, VERIF_OUT : sampled batch
//	VERIF_REPLAY=<file> : replay one file, VERIF_OUT gets the result
//	VERIF_MINIMISE=<file> : minimise the decisions of a replay file, VERIF_OUT gets the new file
func Main(t *testing.T, spec Spec) {
	out := os.Getenv("VERIF_OUT")
	tier := os.Getenv("VERIF_TIER")
	if tier == "" {
		tier = "quick"
	}
	if p := os.Getenv("VERIF_MINIMISE"); p != "" {
		minimise(t, spec, p, out)
		return
	}
	if p := os.Getenv("VERIF_REPLAY"); p != "" {
		replay(t, spec, p, out)
		return
	}
	seed := envU64("VERIF_SEED", 1)
	from, to := envInt("VERIF_RUN_FROM", 0), envInt("VERIF_RUN_TO", 20)
	budget := time.Duration(envInt("VERIF_BUDGET_S", 0)) * time.Second
	progress := os.Getenv("VERIF_PROGRESS")
	start := time.Now()
	po := PartOutput{Property: spec.Property, VerifSeed: seed, Tier: tier, From: from, GoMaxProcs: runtime.GOMAXPROCS(0)}
	keepAll := os.Getenv("VERIF_KEEP_TRACE") != ""
	stop := false
	handle := func(r RunResult, run int) {
		if r.Violation != nil && strings.HasSuffix(r.Violation.Invariant, ".harness") {
			// trouble of the harness itself (set-up that did not work): infrastructure error, never a violation
			r.Panic = "harness error: " + r.Violation.Site + ": " + r.Violation.Message
			r.Violation = nil
		}
		if r.Violation == nil && !keepAll {
			r.Decisions = nil
		}
		if len(po.Results) >= 3 && r.Violation == nil {
			r.Sample = nil // keep a few samples only
		}
		po.Results = append(po.Results, r)
		if r.Panic != "" {
			fmt.Printf("RUN-PANIC property=%s run=%d: %s\n", spec.Property, run, r.Panic)
			stop = true
			return
		}
		if r.Violation != nil {
			po.Replay = &ReplayFile{Property: spec.Property, Invariant: r.Violation.Invariant, Site: r.Violation.Site, World: spec.World, Tier: tier,
				VerifSeed: seed, Run: run, Decisions: r.Decisions, Violation: r.Violation, TraceHash: r.TraceHash, Trace: r.TraceTail, Plan: r.Plan}
			stop = true
		}
	}
	for run := from; run < to && !stop; run++ {
		if budget > 0 && time.Since(start) > budget {
			break
		}
		if progress != "" {
			os.WriteFile(progress, []byte(strconv.Itoa(run)), 0o644)
		}
		if !spec.Enumerate {
			d := NewDecider(RunSeed(seed, run))
			handle(runOne(t, spec, seed, run, tier, d, keepAll, nil), run)
			po.To = run + 1
			continue
		}
		// enumeration: count the fault points of this case, then fire each in turn
		cr := runOne(t, spec, seed, run, tier, NewDecider(RunSeed(seed, run)), keepAll, map[string]int{"target": -1})
		handle(cr, run)
		for p := 0; p < cr.PlanPoints && !stop; p++ {
			if budget > 0 && time.Since(start) > budget*2 {
				break
			}
			handle(runOne(t, spec, seed, run, tier, NewDecider(RunSeed(seed, run)), keepAll, map[string]int{"target": p}), run)
		}
		po.To = run + 1
	}
	po.WallS = time.Since(start).Seconds()
	if out != "" {
		writeJSON(out, po)
	} else {
		b, _ := json.Marshal(po)
		fmt.Println(string(b))
	}
}

func loadReplay(t *testing.T, path string) ReplayFile {
	var rf ReplayFile
	b, err := os.ReadFile(path)
	if err != nil {
		t.Fatal(err)
	}
	if err := json.Unmarshal(b, &rf); err != nil {
		t.Fatal(err)
	}
	return rf
}

func deciderFor(rf ReplayFile) *Decider {
	if rf.Decisions == nil {
		return NewDecider(RunSeed(rf.VerifSeed, rf.Run))
	}
	return NewReplayDecider(RunSeed(rf.VerifSeed, rf.Run), rf.Decisions)
}

func sameViolation(rf ReplayFile, r RunResult) bool {
	return r.Violation != nil && r.Violation.Invariant == rf.Invariant && r.Violation.Site == rf.Site
}

func replay(t *testing.T, spec Spec, path, out string) {
	rf := loadReplay(t, path)
	attempts := envInt("VERIF_REPLAY_ATTEMPTS", 1)
	ok := false
	var last RunResult
	n := 0
	for i := 0; i < attempts && !ok; i++ {
		n++
		last = runOne(t, spec, rf.VerifSeed, rf.Run, rf.Tier, deciderFor(rf), true, rf.Plan)
		ok = sameViolation(rf, last)
	}
	po := PartOutput{Property: spec.Property, VerifSeed: rf.VerifSeed, Tier: rf.Tier, From: rf.Run, To: rf.Run + 1, Results: []RunResult{last}, Reproduced: &ok}
	if ok {
		fmt.Printf("REPLAY-REPRODUCED property=%s invariant=%s site=%s step=%d attempts=%d: %s\n", rf.Property, rf.Invariant, rf.Site, last.Violation.Step, n, last.Violation.Message)
	} else if last.Violation != nil {
		fmt.Printf("REPLAY-DIVERGED property=%s expected=%s/%s got=%s/%s\n", rf.Property, rf.Invariant, rf.Site, last.Violation.Invariant, last.Violation.Site)
	} else {
		fmt.Printf("REPLAY-DIVERGED property=%s expected=%s/%s got no violation\n", rf.Property, rf.Invariant, rf.Site)
	}
	if out != "" {
		writeJSON(out, po)
	}
}

// minimise delta-debugs the non-default decisions of a replay file: chunks of them are reset
// to the default (FIFO, no fault, minimum delay) while the same invariant at the same site
// still fails.
func minimise(t *testing.T, spec Spec, path, out string) {
	rf := loadReplay(t, path)
	budget := time.Duration(envInt("VERIF_BUDGET_S", 60)) * time.Second
	start := time.Now()
	if rf.Decisions == nil {
		r := runOne(t, spec, rf.VerifSeed, rf.Run, rf.Tier, deciderFor(rf), true, rf.Plan)
		if !sameViolation(rf, r) {
			fmt.Println("MINIMISE: seed replay did not reproduce")
			if out != "" {
				writeJSON(out, rf)
			}
			return
		}
		rf.Decisions = r.Decisions
	}
	cur := NonZero(rf.Decisions)
	before := len(cur)
	tests := 0
	try := func(cand []Decision) (bool, RunResult) {
		tests++
		c := rf
		c.Decisions = cand
		if c.Decisions == nil {
			c.Decisions = []Decision{}
		}
		// a candidate is tried up to three times: the order of Go map iteration inside nuts-node is
		// not under the simulator's control and may decide whether a schedule reproduces
		var r RunResult
		for attempt := 0; attempt < 3; attempt++ {
			r = runOne(t, spec, rf.VerifSeed, rf.Run, rf.Tier, deciderFor(c), true, rf.Plan)
			if sameViolation(rf, r) {
				return true, r
			}
		}
		return false, r
	}
	okBase, base := try(cur)
	if !okBase {
		fmt.Println("MINIMISE: override replay did not reproduce; keeping original")
		if out != "" {
			writeJSON(out, rf)
		}
		return
	}
	best := base
	n := 2
	for len(cur) >= 1 && time.Since(start) < budget {
		chunk := (len(cur) + n - 1) / n
		reduced := false
		for i := 0; i < len(cur) && time.Since(start) < budget; i += chunk {
			end := i + chunk
			if end > len(cur) {
				end = len(cur)
			}
			cand := append(append([]Decision{}, cur[:i]...), cur[end:]...)
			if ok, r := try(cand); ok {
				cur = cand
				best = r
				reduced = true
				if n > 2 {
					n--
				}
				break
			}
		}
		if !reduced {
			if chunk <= 1 {
				break
			}
			n *= 2
			if n > len(cur) {
				n = len(cur)
			}
		}
	}
	// also try lowering remaining values toward 1 (simpler choice) - cheap pass
	for i := 0; i < len(cur) && time.Since(start) < budget; i++ {
		if cur[i].V > 1 {
			cand := append([]Decision{}, cur...)
			cand[i].V = 1
			if ok, r := try(cand); ok {
				cur = cand
				best = r
			}
		}
	}
	rf.Decisions = cur
	if rf.Decisions == nil {
		rf.Decisions = []Decision{}
	}
	rf.Violation = best.Violation
	rf.TraceHash = best.TraceHash
	rf.Trace = best.TraceTail
	rf.Minimised = map[string]int{"decisions_nonzero_before": before, "after": len(cur), "tests": tests, "steps_after": best.Steps}
	fmt.Printf("MINIMISED property=%s nonzero %d -> %d in %d runs\n", rf.Property, before, len(cur), tests)
	if out != "" {
		writeJSON(out, rf)
	}
}

func decisionHash(log []Decision) string {
	lines := make([]string, len(log))
	for i, x := range log {
		lines[i] = fmt.Sprintf("%s|%d|%d|%d", x.Label, x.K, x.N, x.V)
	}
	sort.Strings(lines)
	h := sha256.New()
	for _, l := range lines {
		h.Write([]byte(l))
		h.Write([]byte{10})
	}
	return hex.EncodeToString(h.Sum(nil)[:8])
}
