package props

import (
	"encoding/json"
	"errors"
	"fmt"
	"sort"
	"strings"
	"sync/atomic"
	"testing"
	"time"

	"github.com/nuts-foundation/go-did/did"
	"github.com/nuts-foundation/nuts-node/storage/orm"
	"github.com/nuts-foundation/nuts-node/vdr/didsubject"
	"github.com/nuts-foundation/nuts-node/vdr/resolver"
	"verifsim/seams"
	"verifsim/simkit"
	"verifsim/world"
)

// C13 — subject operations change all of a subject's DIDs together or not at all.
//
// World C: one node with the real vdr.Module (didsubject.SqlManager + didweb and didnuts
// method managers), the real single-node Network engine for did:nuts publishing, gorm on the
// SQL seam and all KV stores on the KV seam. A seeded sequence of subject operations runs
// while fault points fire: SQL statement errors, commit failures, process stops before and
// after each SQL commit, KV errors, commit failures and process stops inside the did:nuts
// publish. After each interrupted operation the node is restarted if it stopped, the rollback
// sweep runs (virtual time + the manager's Rollback), and the reference model of versions is
// compared: all DIDs of a subject show the same logical state, and it is the old or the new one.

func TestC13(t *testing.T) {
	simkit.Main(t, simkit.Spec{Property: "C13", World: "C/1node", Body: c13Body, Enumerate: envEnum(), MaxStepsPerRun: 60000})
}

type c13State struct {
	Services    []string `json:"services"`
	Keys        int      `json:"keys"`
	Deactivated bool     `json:"deactivated"`
	Exists      bool     `json:"exists"`
}

func (a c13State) key() string { b, _ := json.Marshal(a); return string(b) }

type c13Sample struct {
	Methods    string   `json:"did_methods"`
	Ops        []string `json:"operations"`
	FaultKinds []string `json:"fault_kinds_enabled,omitempty"`
	EnumPoint  string   `json:"enumerated_fault_point,omitempty"`
	Outcomes   []string `json:"outcomes"`
	Restarts   int      `json:"restarts"`
}

func c13Body(s *simkit.Sim, rc *simkit.RunCtx) {
	sample := &c13Sample{}
	rc.Sample = sample
	enum := rc.Plan != nil
	w := world.New(s, rc)
	defer w.Shutdown()
	methods := []string{"web,nuts", "web,nuts", "nuts", "web"}[s.D.Decide("methods", 4)]
	sample.Methods = methods
	nmethods := len(strings.Split(methods, ","))
	opts := world.NodeOpts{Name: "n1", DIDMethods: methods, SimSQL: true}
	if _, err := w.StartNode(opts); err != nil {
		s.Fail("C13.harness", "start", "%v", err)
		return
	}
	node := func() *world.Node { return w.Nodes["n1"] }

	// ---- faults ----
	f := w.F
	if enum {
		f.Enum = true
		f.Target = rc.Plan["target"]
	} else {
		mode := s.D.Decide("faultmode", 4)
		for _, k := range []struct {
			k    string
			rate int
		}{{seams.SQLStmtErr, 12}, {seams.SQLCommitFail, 60}, {seams.SQLCrashBeforeCommit, 40}, {seams.SQLCrashAfterCommit, 60},
			{seams.KVOpErr, 15}, {seams.KVCommitFail, 40}, {seams.KVCrashBeforeCommit, 20}, {seams.KVCrashAfterCommit, 30}, {seams.KVCrashBetweenHooks, 20}} {
			if mode != 0 && s.D.Decide("enable "+k.k, 2) == 1 {
				f.Rates[k.k] = k.rate
				sample.FaultKinds = append(sample.FaultKinds, k.k)
			}
		}
		f.MaxFaults = 3
	}
	// faults belong to the subject operations: not to the session/discovery/other tables
	f.Filter = func(kind, site string) bool {
		if kind == seams.SQLCommitLost {
			return false // "commit acknowledged but lost" is not part of this property's fault model
		}
		return !strings.Contains(site, "_jobs") || strings.HasPrefix(kind, "crash")
	}

	// ---- observation ----
	project := func(id did.DID) (c13State, error) {
		doc, _, err := node().VDR.Resolve(id, nil)
		if err != nil {
			if errors.Is(err, resolver.ErrDeactivated) {
				return c13State{Exists: true, Deactivated: true}, nil
			}
			// not resolvable (for did:web an unknown DID is looked up over HTTP, which fails here): no version
			return c13State{}, nil
		}
		st := c13State{Exists: true, Keys: len(doc.VerificationMethod)}
		for _, sv := range doc.Service {
			ep, _ := json.Marshal(sv.ServiceEndpoint)
			st.Services = append(st.Services, sv.Type+"|"+string(ep))
		}
		sort.Strings(st.Services)
		if len(doc.Controller) == 0 && len(doc.CapabilityInvocation) == 0 {
			st.Deactivated = true
			st.Keys = 0
			st.Services = nil
		}
		return st, nil
	}
	changeLogRows := func() (int64, error) {
		var n int64
		err := node().Storage.Real.GetSQLDatabase().Table("did_change_log").Count(&n).Error
		return n, err
	}
	versionsOK := func() error {
		type row struct {
			Did     string
			Version int
		}
		var rows []row
		if err := node().Storage.Real.GetSQLDatabase().Table("did_document_version").Select("did, version").Order("did, version").Scan(&rows).Error; err != nil {
			return err
		}
		last := map[string]int{}
		for _, r := range rows {
			exp, seen := last[r.Did]
			if !seen {
				exp = -1
			}
			if r.Version != exp+1 {
				return fmt.Errorf("DID %s has versions that are not consecutive: %d follows %d", r.Did, r.Version, exp)
			}
			last[r.Did] = r.Version
		}
		return nil
	}

	// ---- model ----
	type subj struct {
		name      string
		confirmed c13State
		allowed   map[string]c13State // possible states after an interrupted operation (includes confirmed)
		dids      []did.DID
	}
	subjects := map[string]*subj{}
	var names []string
	sweepAndCheck := func(where string, kind string, wasConcurrent bool) {
		// restart if the process stopped, then let the sweep run
		armed := f.Armed
		f.Arm(false)
		defer f.Arm(armed)
		for _, name := range w.TakeCrashed() {
			_ = name
			s.Probes.Inc("restart-after-crash")
			if _, err := w.Restart("n1"); err != nil {
				s.Fail("C13.harness", "restart", "%v", err)
				return
			}
			sample.Restarts++
		}
		s.Advance(150 * time.Second)
		node().VDR.Rollback(world.Ctx())
		s.Settle()
		if n, err := changeLogRows(); err != nil {
			s.Fail("C13.harness", "sql", "%v", err)
			return
		} else if n != 0 {
			s.Fail("C13.log-empty", kind, "%d change record(s) remain after the rollback sweep (%s)", n, where)
			return
		}
		if err := versionsOK(); err != nil {
			site := "gap"
			if wasConcurrent {
				site = "gap:overlapping-operations"
			}
			s.Fail("C13.versions", site, "%s: %v", where, err)
			return
		}
		for _, name := range names {
			sb := subjects[name]
			dids, err := node().VDR.ListDIDs(world.Ctx(), name)
			if err != nil && !errors.Is(err, didsubject.ErrSubjectNotFound) {
				s.Fail("C13.harness", "list", "%v", err)
				return
			}
			if len(dids) != 0 && len(dids) != nmethods {
				s.Fail("C13.unique-subject", kind, "subject %s has %d DIDs, %d methods are enabled: %v", name, len(dids), nmethods, dids)
				return
			}
			seenMethod := map[string]bool{}
			for _, d := range dids {
				if seenMethod[d.Method] {
					s.Fail("C13.unique-subject", kind, "subject %s has two DIDs of method %s: %v", name, d.Method, dids)
					return
				}
				seenMethod[d.Method] = true
			}
			var states []c13State
			if len(dids) == 0 {
				// the DIDs the interrupted creation made must not resolve either
				for _, d := range sb.dids {
					st, err := project(d)
					if err == nil && st.Exists {
						s.Fail("C13.atomic", kind+":create", "subject %s does not exist (no DIDs listed) but %s resolves", name, d)
						return
					}
				}
				states = []c13State{{}}
			}
			for _, d := range dids {
				st, err := project(d)
				if err != nil {
					s.Fail("C13.atomic", kind+":resolve", "%s: DID %s of subject %s does not resolve after the sweep: %v", where, d, name, err)
					return
				}
				states = append(states, st)
			}
			for i := 1; i < len(states); i++ {
				if states[i].key() != states[0].key() {
					s.Fail("C13.atomic", kind, "%s: subject %s after the sweep: %s shows %s but %s shows %s", where, name, dids[0], states[0].key(), dids[i], states[i].key())
					return
				}
			}
			if _, ok := sb.allowed[states[0].key()]; !ok {
				var al []string
				for k := range sb.allowed {
					al = append(al, k)
				}
				sort.Strings(al)
				s.Fail("C13.atomic", kind+":state", "%s: subject %s shows %s after the sweep, which is neither its previous nor its new version (allowed: %v)", where, name, states[0].key(), al)
				return
			}
			sb.confirmed = states[0]
			sb.allowed = map[string]c13State{states[0].key(): states[0]}
			if len(dids) > 0 {
				sb.dids = dids
			}
		}
	}

	// ---- operations ----
	type op struct {
		kind, subject, arg string
	}
	apply := func(o op, before c13State) c13State {
		n := before
		n.Services = append([]string(nil), before.Services...)
		switch o.kind {
		case "create":
			return c13State{Exists: true, Keys: 1}
		case "add-service":
			n.Services = append(n.Services, o.arg+"|\"https://"+o.arg+".sim\"")
			sort.Strings(n.Services)
		case "delete-service":
			var keep []string
			for _, x := range n.Services {
				if !strings.HasPrefix(x, o.arg+"|") {
					keep = append(keep, x)
				}
			}
			n.Services = keep
		case "update-service":
			for i, x := range n.Services {
				if strings.HasPrefix(x, o.arg+"|") {
					n.Services[i] = o.arg + "|\"https://" + o.arg + "-v2.sim\""
				}
			}
			sort.Strings(n.Services)
		case "add-key":
			n.Keys++
		case "deactivate":
			return c13State{Exists: true, Deactivated: true}
		}
		return n
	}
	findServiceID := func(subject, typ string) string {
		svcs, err := node().VDR.FindServices(world.Ctx(), subject, &typ)
		if err != nil || len(svcs) == 0 {
			return ""
		}
		return svcs[0].ID.String()
	}
	run := func(o op) error {
		ctx := world.Ctx()
		v := node().VDR
		switch o.kind {
		case "create":
			docs, _, err := v.Create(ctx, didsubject.DefaultCreationOptions().With(didsubject.SubjectCreationOption{Subject: o.subject}))
			if err == nil {
				var ds []did.DID
				for _, d := range docs {
					ds = append(ds, d.ID)
				}
				subjects[o.subject].dids = ds
			}
			return err
		case "add-service":
			_, err := v.CreateService(ctx, o.subject, did.Service{Type: o.arg, ServiceEndpoint: "https://" + o.arg + ".sim"})
			return err
		case "delete-service":
			id := findServiceID(o.subject, o.arg)
			if id == "" {
				return errors.New("no such service")
			}
			u := did.MustParseDIDURL(id)
			return v.DeleteService(ctx, o.subject, u.URI())
		case "update-service":
			id := findServiceID(o.subject, o.arg)
			if id == "" {
				return errors.New("no such service")
			}
			u := did.MustParseDIDURL(id)
			_, err := v.UpdateService(ctx, o.subject, u.URI(), did.Service{Type: o.arg, ServiceEndpoint: "https://" + o.arg + "-v2.sim"})
			return err
		case "add-key":
			_, err := v.AddVerificationMethod(ctx, o.subject, orm.AssertionKeyUsage())
			return err
		case "deactivate":
			return v.Deactivate(ctx, o.subject)
		}
		return nil
	}

	// the sequence
	nops := 3 + s.D.Decide("ops", 5)
	if enum {
		nops = 2 + s.D.Decide("ops", 3)
	}
	nsubj := 1 + s.D.Decide("subjects", 2)
	for i := 0; i < nsubj; i++ {
		name := fmt.Sprintf("subj%d", i)
		names = append(names, name)
		subjects[name] = &subj{name: name, allowed: map[string]c13State{c13State{}.key(): {}}}
	}
	s.Enable(true)
	f.Arm(true)
	svcN := 0
	for k := 0; k < nops && !s.Failed(); k++ {
		sb := subjects[names[s.D.Decide("subject", len(names))]]
		var o op
		cur := sb.confirmed
		switch {
		case !cur.Exists:
			o = op{"create", sb.name, ""}
		case cur.Deactivated:
			continue // nothing more is done with a deactivated subject
		default:
			kinds := []string{"add-service", "add-service", "add-key", "update-service", "delete-service", "deactivate"}
			o.kind = kinds[s.D.Decide("kind", len(kinds))]
			o.subject = sb.name
			switch o.kind {
			case "add-service":
				svcN++
				o.arg = fmt.Sprintf("svc%d", svcN)
			case "update-service", "delete-service":
				if len(cur.Services) == 0 {
					svcN++
					o = op{"add-service", sb.name, fmt.Sprintf("svc%d", svcN)}
				} else {
					o.arg = strings.SplitN(cur.Services[s.D.Decide("which-service", len(cur.Services))], "|", 2)[0]
				}
			}
		}
		sample.Ops = append(sample.Ops, fmt.Sprintf("%s %s %s", o.kind, o.subject, o.arg))
		want := apply(o, cur)
		faultsBefore := totalFaults(s)
		var err error
		var done atomic.Bool
		s.Go(fmt.Sprintf("op%d", k), func() {
			defer done.Store(true)
			err = run(o)
		})
		// optionally a second, concurrent operation on the same subject name (creation twice / two service changes)
		var err2 error
		// overlapping operations on one subject are outside this property's quantifier (fault sequences, crash
		// points, histories) and are not generated; see DESIGN.md 13.3, observations O2 and O3
		concurrent := false
		var done2 atomic.Bool
		done2.Store(true)
		var o2 op
		if concurrent {
			o2 = o
			if o.kind == "add-service" {
				svcN++
				o2.arg = fmt.Sprintf("svc%d", svcN)
			}
			done2.Store(false)
			s.Go(fmt.Sprintf("op%d-b", k), func() {
				defer done2.Store(true)
				err2 = run(o2)
			})
		}
		s.RunUntil(func() bool { return done.Load() && done2.Load() }, 10*time.Minute, 200*time.Millisecond)
		fired := totalFaults(s) > faultsBefore
		crashed := node().Inc.Dead()
		outcome := "ok"
		if err != nil {
			outcome = "error"
		}
		if crashed {
			outcome = "stopped"
		}
		sample.Outcomes = append(sample.Outcomes, outcome)
		// what may be observed afterwards
		sb.allowed = map[string]c13State{cur.key(): cur}
		if concurrent {
			w1, w2 := apply(o, cur), apply(o2, cur)
			both := apply(o2, w1)
			if o.kind == "create" {
				if err == nil && err2 == nil && !fired {
					s.Fail("C13.unique-subject", "concurrent-create", "two concurrent creations of subject %s both succeeded", sb.name)
					return
				}
				sb.allowed[w1.key()] = w1
			} else {
				for _, st := range []c13State{w1, w2, both} {
					sb.allowed[st.key()] = st
				}
				if err == nil && err2 == nil && !fired && !crashed {
					sb.allowed = map[string]c13State{both.key(): both}
				}
			}
		} else {
			switch {
			case err == nil && !crashed:
				sb.allowed = map[string]c13State{want.key(): want}
			case !fired && !crashed:
				// failed without any injected fault: must be a functional refusal that changes nothing
			default:
				sb.allowed[want.key()] = want
			}
		}
		sweepAndCheck(fmt.Sprintf("after op %d (%s)", k, o.kind), o.kind, concurrent)
		if s.Failed() {
			return
		}
		// a repeated attempt can succeed
		if !concurrent && (err != nil || crashed) && (fired || crashed) && sb.confirmed.key() == cur.key() && !cur.Deactivated {
			f.Arm(false)
			var rerr error
			done.Store(false)
			s.Go(fmt.Sprintf("op%d-retry", k), func() {
				defer done.Store(true)
				rerr = run(o)
			})
			s.RunUntil(done.Load, 10*time.Minute, 200*time.Millisecond)
			if rerr != nil {
				s.Fail("C13.retry", o.kind, "after the interrupted %s on %s was rolled back, the repeated attempt without faults failed: %v", o.kind, sb.name, rerr)
				return
			}
			sb.allowed = map[string]c13State{want.key(): want}
			sweepAndCheck(fmt.Sprintf("after retry of op %d (%s)", k, o.kind), o.kind+":retry", false)
			f.Arm(true)
			s.Probes.Inc("retry-after-rollback")
		}
	}
	f.Arm(false)
	if enum {
		rc.PlanPoints = f.Count
		sample.EnumPoint = f.Fired
		rc.Signature = fmt.Sprintf("case%d/%s", rc.Run, f.Fired)
	}
	rc.Nontrivial = len(sample.Ops) > 0 && (totalFaults(s) > 0 || s.NonFIFO > 0)
}
