package props

import (
	"encoding/base64"
	"encoding/json"
	"fmt"
	"net/http"
	"net/url"
	"os"
	"strings"
	"testing"
	"time"

	"verifsim/simkit"
	"verifsim/world"
)

// C02 — access tokens only after full presentation checks; faithful introspection.
//
// World B: an authorization-server node and a client node run the complete real RFC021
// service-to-service flow over the simulated HTTP transport (metadata, presentation
// definition, wallet, token request; the server resolves the client's did:web document and
// status list). A run applies at most one named defect - through the workload (revoked or
// expired credential, credential about another subject, unknown scope), in transit (tampered
// assertion / submission / scope, delivery delayed past the validity window, duplicate delivery,
// delivery to another subject's token endpoint) - and checks: token issued iff no defect.
// Tokens are then introspected over virtual time and compared with what was established at
// issuance; scopes whose policy maps a credential field onto a reserved claim name must not
// override the standard fields.

func TestC02(t *testing.T) {
	simkit.Main(t, simkit.Spec{Property: "C02", World: "B/2nodes", Body: c02Body, MaxStepsPerRun: 40000})
}

type c02Sample struct {
	Scenario   string   `json:"scenario"`
	TokenType  string   `json:"token_type"`
	Scope      string   `json:"scope"`
	Issued     bool     `json:"token_issued"`
	Answer     string   `json:"token_endpoint_answer,omitempty"`
	Introspect []string `json:"introspection"`
}

var c02Scenarios = []string{
	"valid", "valid", "valid",
	"revoked-credential", "expired-credential", "foreign-subject-credential", "unknown-scope", "unfulfilled-scope", "multi-scope-unfulfilled",
	"tamper-signature", "tamper-submission-definition", "tamper-submission-path", "tamper-scope", "tamper-claim",
	"delayed-past-validity", "duplicate-delivery", "duplicate-delivery", "other-audience", "other-audience-extended",
	"openid4vp-valid", "openid4vp-forged-first-presentation", "openid4vp-forged-first-presentation",
	"openid4vp-wrong-verifier", "openid4vp-wrong-client-id", "openid4vp-missing-verifier",
	"reissued-valid", "reissued-overlong", "reissued-overlong", "reissued-stale", "reissued-not-yet-valid", "reissued-other-domain", "reissued-reused-nonce",
	"override-iss", "override-client_id", "override-scope", "override-exp", "override-iat", "override-sub", "override-active", "override-cnf",
}

func c02Body(s *simkit.Sim, rc *simkit.RunCtx) {
	sample := &c02Sample{}
	rc.Sample = sample
	scenario := c02Scenarios[s.D.Decide("scenario", len(c02Scenarios))]
	tokenType := []string{"Bearer", ""}[s.D.Decide("token-type", 2)]
	sample.Scenario, sample.TokenType = scenario, tokenType
	rc.Signature = scenario + "/" + tokenType + "/" + fmt.Sprint(s.D.Decide("variant", 4))
	p, err := newWebPair(s, rc, false, true)
	if p.w != nil {
		defer p.w.Shutdown()
	}
	if err != nil {
		s.Fail("C02.harness", "setup", "%v", err)
		return
	}
	as, cl, w := p.as, p.cl, p.w
	// a second subject on the authorization server (another audience)
	if _, err := as.CreateSubject("vendorA2"); err != nil {
		s.Fail("C02.harness", "setup", "%v", err)
		return
	}
	scope := "simple"
	valid := true
	w.HTTP.KeepBodies = true
	isTokenPost := func(req *http.Request) bool {
		return req.Method == "POST" && strings.HasSuffix(req.URL.Path, "/oauth2/vendorA/token")
	}
	editForm := func(body []byte, f func(v url.Values)) []byte {
		v, err := url.ParseQuery(string(body))
		if err != nil {
			return body
		}
		f(v)
		return []byte(v.Encode())
	}
	s.Enable(true)

	// ---- apply the scenario's defect ----
	switch {
	case scenario == "valid":
	case strings.HasPrefix(scenario, "override-"):
		scope = scenario // valid request; the policy of this scope maps a credential field onto a reserved claim name
	case scenario == "revoked-credential":
		valid = false
		creds := walletCreds(cl, "vendorB")
		if len(creds) == 0 {
			s.Fail("C02.harness", "wallet", "empty wallet")
			return
		}
		var c struct {
			ID string `json:"id"`
		}
		_ = json.Unmarshal(creds[0], &c)
		if code, body := cl.Revoke(c.ID); code != 204 && code != 200 {
			s.Fail("C02.harness", "revoke", "%d %s", code, body)
			return
		}
	case scenario == "expired-credential":
		valid = false
		// replace the wallet's credential by one that expires in a minute, then let two minutes pass
		removeWallet(cl, "vendorB")
		short, err := issueExpiring(cl, p.didB, time.Now().Add(time.Minute))
		if err != nil || cl.LoadIntoWallet("vendorB", short) != nil {
			s.Fail("C02.harness", "expiring", "%v", err)
			return
		}
		s.Advance(2 * time.Minute)
	case scenario == "foreign-subject-credential":
		valid = false
		removeWallet(cl, "vendorB")
		other, _, err := cl.IssueOrgCredential(p.didB, "did:web:someone-else.sim", "Other Org", "Elsewhere", false, "")
		if err != nil {
			s.Fail("C02.harness", "foreign", "%v", err)
			return
		}
		if err := cl.LoadIntoWallet("vendorB", other); err != nil {
			// the wallet itself refuses a credential about another subject: nothing to present
			s.Info.Inc("wallet-refused-foreign-credential")
		}
	case scenario == "unknown-scope":
		valid = false
		scope = "no-such-scope"
	case scenario == "unfulfilled-scope":
		valid = false
		scope = "test" // needs an employee credential the wallet does not have
	case scenario == "multi-scope-unfulfilled":
		// a scope string with two values: one the wallet can fulfil and one it cannot (no policy is configured for the
		// combination). Whatever the server makes of the string, a token for it must not come out.
		valid = false
		scope = []string{"test simple", "simple test", "test  simple", "simple unknown-scope-value simple"}[s.D.Decide("multi-scope", 4)]
	case scenario == "tamper-signature":
		valid = false
		w.HTTP.TamperRequest = func(req *http.Request, body []byte) []byte {
			if !isTokenPost(req) {
				return body
			}
			return editForm(body, func(v url.Values) {
				a := v.Get("assertion")
				if parts := strings.Split(a, "."); len(parts) == 3 {
					sig, _ := base64.RawURLEncoding.DecodeString(parts[2])
					if len(sig) > 8 {
						sig[len(sig)/2] ^= 0x20
					}
					parts[2] = base64.RawURLEncoding.EncodeToString(sig)
					v.Set("assertion", strings.Join(parts, "."))
				} else {
					v.Set("assertion", strings.Replace(a, "\"jws\":\"", "\"jws\":\"A", 1))
				}
			})
		}
	case scenario == "tamper-claim":
		valid = false
		w.HTTP.TamperRequest = func(req *http.Request, body []byte) []byte {
			if !isTokenPost(req) {
				return body
			}
			return editForm(body, func(v url.Values) {
				a := v.Get("assertion")
				if parts := strings.Split(a, "."); len(parts) == 3 {
					pl, _ := base64.RawURLEncoding.DecodeString(parts[1])
					pl2 := strings.Replace(string(pl), "Caresoft B.V.", "Evilsoft B.V.", 1)
					parts[1] = base64.RawURLEncoding.EncodeToString([]byte(pl2))
					v.Set("assertion", strings.Join(parts, "."))
				} else {
					v.Set("assertion", strings.Replace(a, "Caresoft B.V.", "Evilsoft B.V.", 1))
				}
			})
		}
	case scenario == "tamper-submission-definition":
		valid = false
		w.HTTP.TamperRequest = func(req *http.Request, body []byte) []byte {
			if !isTokenPost(req) {
				return body
			}
			return editForm(body, func(v url.Values) {
				v.Set("presentation_submission", strings.Replace(v.Get("presentation_submission"), "pd_simple_org", "pd_other_definition", 1))
			})
		}
	case scenario == "tamper-submission-path":
		valid = false
		w.HTTP.TamperRequest = func(req *http.Request, body []byte) []byte {
			if !isTokenPost(req) {
				return body
			}
			return editForm(body, func(v url.Values) {
				ps := v.Get("presentation_submission")
				ps = strings.Replace(ps, "$.verifiableCredential\"", "$.verifiableCredential[3]\"", 1)
				ps = strings.Replace(ps, "$.vp.verifiableCredential[0]", "$.vp.verifiableCredential[3]", 1)
				ps = strings.Replace(ps, "$.verifiableCredential[0]", "$.verifiableCredential[3]", 1)
				v.Set("presentation_submission", ps)
			})
		}
	case scenario == "tamper-scope":
		valid = false
		w.HTTP.TamperRequest = func(req *http.Request, body []byte) []byte {
			if !isTokenPost(req) {
				return body
			}
			return editForm(body, func(v url.Values) { v.Set("scope", "test") })
		}
	case scenario == "delayed-past-validity":
		valid = false
		w.HTTP.TamperRequest = func(req *http.Request, body []byte) []byte {
			if isTokenPost(req) {
				time.Sleep(20 * time.Second) // the presentation is valid for 5 s, the allowed skew is 5 s
			}
			return body
		}
	}

	// ---- the authorization-code grant: the OpenID4VP user flow, the workload playing the browser ----
	if strings.HasPrefix(scenario, "openid4vp-") {
		forged := scenario == "openid4vp-forged-first-presentation"
		if forged {
			// The wallet's answer to the verifier is changed in transit into an array of two presentations: first a copy whose
			// credential was altered (its proofs no longer verify), then the genuine one; the submission points at the first.
			w.HTTP.TamperRequest = func(req *http.Request, body []byte) []byte {
				if req.Method != "POST" || !strings.HasSuffix(req.URL.Path, "/oauth2/vendorA/response") {
					return body
				}
				return editForm(body, func(v url.Values) {
					vp := v.Get("vp_token")
					if !strings.HasPrefix(strings.TrimSpace(vp), "{") || !strings.Contains(vp, "Caresoft B.V.") {
						return
					}
					v.Set("vp_token", "["+strings.Replace(vp, "Caresoft B.V.", "Evilsoft B.V.", 1)+","+vp+"]")
					var ps map[string]interface{}
					if json.Unmarshal([]byte(v.Get("presentation_submission")), &ps) != nil {
						return
					}
					dm, _ := ps["descriptor_map"].([]interface{})
					for i, e := range dm {
						if m, ok := e.(map[string]interface{}); ok {
							dm[i] = map[string]interface{}{"id": m["id"], "format": "ldp_vp", "path": "$[0]",
								"path_nested": map[string]interface{}{"id": m["id"], "format": m["format"], "path": m["path"]}}
						}
					}
					b, _ := json.Marshal(ps)
					v.Set("presentation_submission", string(b))
					s.Info.Inc("openid4vp-response-rewritten")
				})
			}
		}
		// The authorization-code grant's own conditions: the token request of the client is changed in transit so that the PKCE
		// verifier does not belong to the challenge of the authorization request, or the client id is not the one the code was
		// handed out to. The code itself is genuine and unused.
		codeDefect := ""
		if scenario == "openid4vp-wrong-verifier" || scenario == "openid4vp-wrong-client-id" || scenario == "openid4vp-missing-verifier" {
			variant := s.D.Decide("code-defect-variant", 4)
			w.HTTP.TamperRequest = func(req *http.Request, body []byte) []byte {
				if !isTokenPost(req) {
					return body
				}
				return editForm(body, func(v url.Values) {
					if v.Get("grant_type") != "authorization_code" || v.Get("code") == "" {
						return
					}
					switch scenario {
					case "openid4vp-missing-verifier":
						if variant%2 == 0 {
							v.Del("code_verifier")
							codeDefect = "code_verifier removed"
						} else {
							v.Set("code_verifier", "")
							codeDefect = "code_verifier empty"
						}
					case "openid4vp-wrong-verifier":
						cv := v.Get("code_verifier")
						if cv == "" {
							return
						}
						switch variant {
						case 0:
							v.Set("code_verifier", cv+"A")
							codeDefect = "code_verifier extended by one character"
						case 1:
							v.Set("code_verifier", cv[:len(cv)-1])
							codeDefect = "code_verifier shortened by one character"
						case 2:
							// the challenge of the authorization request (it travelled through the browser) presented as verifier
							for _, r := range w.HTTP.Requests() {
								if u, err := url.Parse(r.URL); err == nil && u.Query().Get("code_challenge") != "" {
									v.Set("code_verifier", u.Query().Get("code_challenge"))
									codeDefect = "code_challenge presented as code_verifier"
								}
							}
							if codeDefect == "" {
								v.Set("code_verifier", strings.ToUpper(cv)+"x")
								codeDefect = "code_verifier replaced"
							}
						default:
							v.Set("code_verifier", "0123456789abcdefghijklmnopqrstuvwxyzABCDEFGHIJKLMNOPQRSTUVWXYZ-._~")
							codeDefect = "code_verifier of another session"
						}
					case "openid4vp-wrong-client-id":
						id := v.Get("client_id")
						if id == "" {
							return
						}
						switch variant {
						case 0:
							v.Set("client_id", id+"2")
							codeDefect = "client_id extended"
						case 1:
							v.Set("client_id", id[:len(id)-1])
							codeDefect = "client_id shortened"
						case 2:
							v.Set("client_id", "https://nodea.sim/oauth2/vendorA")
							codeDefect = "client_id of the authorization server itself"
						default:
							v.Set("client_id", "https://evil.sim/oauth2/vendorB")
							codeDefect = "client_id on another host"
						}
					}
					s.Info.Inc("token-request-of-code-grant-rewritten:" + scenario)
				})
			}
		}
		var sessionID string
		var hops []world.Hop
		s.Do("user-flow", 5*time.Minute, func() {
			code, body := cl.Call("POST", "/internal/auth/v2/vendorB/request-user-access-token", map[string]interface{}{
				"authorization_server": p.asServer, "scope": "simple", "redirect_uri": "https://app.sim/callback",
				"preauthorized_user": map[string]string{"id": "1", "name": "John Doe", "role": "Janitor"}})
			var start struct {
				RedirectURI string `json:"redirect_uri"`
				SessionID   string `json:"session_id"`
			}
			_ = json.Unmarshal(body, &start)
			if code != 200 || start.RedirectURI == "" {
				return
			}
			sessionID = start.SessionID
			hops = w.Browse(start.RedirectURI, map[string][]*http.Cookie{}, 10)
		})
		w.HTTP.TamperRequest = nil
		if os.Getenv("C02DEBUG") != "" {
			for _, r := range w.HTTP.Requests() {
				if r.Method == "POST" {
					fmt.Println("POST", r.URL, r.Status, trunc(string(r.ReqBody), 2500), "->", trunc(string(r.RespBody), 300))
				}
			}
		}
		if sessionID == "" {
			s.Fail("C02.harness", "user-flow", "request-user-access-token failed")
			return
		}
		code, body := cl.Call("GET", "/internal/auth/v2/accesstoken/"+sessionID, nil)
		var got struct {
			AccessToken string `json:"access_token"`
		}
		_ = json.Unmarshal(body, &got)
		issued := code == 200 && got.AccessToken != ""
		sample.Issued = issued
		sample.Answer = fmt.Sprintf("%d hops, token status: %d %s", len(hops), code, trunc(string(body), 120))
		s.Info.Inc(map[bool]string{true: "issued:", false: "refused:"}[issued] + scenario)
		if strings.HasPrefix(scenario, "openid4vp-wrong-") || scenario == "openid4vp-missing-verifier" {
			if codeDefect == "" {
				s.Fail("C02.harness", "user-flow", "the token request of the authorization-code grant was not seen: %s", sample.Answer)
				return
			}
			if issued {
				s.Fail("C02.issue", "issued:"+scenario, "the authorization-code grant ended in an access token although the token request was defective: %s", codeDefect)
				return
			}
			// and nothing the authorization server answered to that request is a token
			for _, r := range w.HTTP.Requests() {
				if r.Method == "POST" && strings.HasSuffix(strings.SplitN(r.URL, "?", 2)[0], "/oauth2/vendorA/token") && world.IsTokenResponse(r.Status, r.RespBody) {
					s.Fail("C02.issue", "issued:"+scenario, "the token endpoint answered a defective authorization-code request with a token: %s", codeDefect)
					return
				}
			}
			rc.Nontrivial = true
			return
		}
		if forged && issued {
			s.Fail("C02.issue", "issued:"+scenario, "the authorization-code grant ended in an access token although the first of the two presentations in the wallet's answer does not verify (its credential was altered)")
			return
		}
		if !forged && !issued {
			s.Fail("C02.issue", "refused:openid4vp-valid", "the untouched OpenID4VP user flow did not end in an access token: %s", sample.Answer)
			return
		}
		if issued {
			var tok struct {
				AccessToken string `json:"access_token"`
			}
			_ = json.Unmarshal(body, &tok)
			if _, m := as.Introspect(tok.AccessToken); m == nil || m["active"] != true {
				s.Fail("C02.introspect", "active:openid4vp", "the token of the authorization-code grant is not active right after issuance")
				return
			}
		}
		rc.Nontrivial = true
		return
	}

	// ---- the request ----
	var tr world.TokenResult
	s.Do("token-request", 5*time.Minute, func() {
		tr = cl.RequestServiceToken("vendorB", p.asServer, scope, tokenType, true)
	})
	w.HTTP.TamperRequest = nil
	sample.Scope = scope
	sample.Issued = tr.Code == 200 && tr.AccessToken != ""
	sample.Answer = fmt.Sprintf("%d %s", tr.Code, trunc(string(tr.Body), 200))
	if sample.Issued {
		s.Info.Inc("issued:" + scenario)
	} else {
		s.Info.Inc("refused:" + scenario)
	}
	issuedAt := time.Now()

	// scenarios that re-deliver the captured request
	var captured []byte
	for _, r := range w.HTTP.Requests() {
		if r.Method == "POST" && strings.HasSuffix(r.Path, "/oauth2/vendorA/token") {
			captured = r.ReqBody
		}
	}
	switch scenario {
	case "duplicate-delivery":
		if !sample.Issued || captured == nil {
			s.Fail("C02.issue", "refused:valid-before-duplicate", "the valid request before the duplicate was refused: %s", sample.Answer)
			return
		}
		// the same presentation again, as it was or with the parameters that the presentation does not cover changed
		// (the nonce belongs to the presentation, whoever the sender says it is)
		again := captured
		how := "unchanged"
		switch s.D.Decide("duplicate-variant", 4) {
		case 1:
			again = editForm(captured, func(v url.Values) { v.Set("client_id", "https://nodeb.sim/oauth2/another-client") })
			how = "other client_id"
		case 2:
			again = editForm(captured, func(v url.Values) { v.Del("client_id") })
			how = "without client_id"
		case 3:
			again = editForm(captured, func(v url.Values) { v.Set("client_id", v.Get("client_id")+"/"); v.Set("state", "x") })
			how = "client_id with a trailing slash, extra parameter"
		}
		s.Info.Inc("duplicate-delivery:" + how)
		code, body := as.CallForm("POST", "/oauth2/vendorA/token", string(again))
		if world.IsTokenResponse(code, body) {
			s.Fail("C02.issue", "issued:duplicate-delivery", "the same presentation (same nonce) was honoured a second time (request parameters: %s)", how)
			return
		}
	case "reissued-valid", "reissued-overlong", "reissued-stale", "reissued-not-yet-valid", "reissued-other-domain", "reissued-reused-nonce":
		// the client's operator makes presentations of its own (same credentials, holder, audience) with other proof
		// times, and presents them at a seeded moment of their life
		if !sample.Issued || captured == nil {
			s.Fail("C02.issue", "refused:valid-before-reissue", "the valid request before the reissued one was refused: %s", sample.Answer)
			return
		}
		form, err := url.ParseQuery(string(captured))
		if err != nil || !strings.HasPrefix(strings.TrimSpace(form.Get("assertion")), "{") {
			s.Fail("C02.harness", "reissue", "the captured presentation is not a JSON-LD one")
			return
		}
		now := time.Now()
		created, expires := now, now.Add(5*time.Second)
		var wait time.Duration
		nonce := fmt.Sprintf("reissued-%d", s.D.Decide("nonce", 1000000))
		wantToken := false
		switch scenario {
		case "reissued-valid":
			wantToken = true
			created = now.Add(time.Duration(s.D.Decide("created-offset-s", 9)-4) * time.Second) // -4 .. +4 s: within the skew
			expires = created.Add(time.Duration(1+s.D.Decide("validity-s", 5)) * time.Second)
		case "reissued-overlong":
			v := []time.Duration{5500 * time.Millisecond, 6 * time.Second, 8 * time.Second, 30 * time.Second, time.Hour}[s.D.Decide("validity", 5)]
			expires = created.Add(v)
			// at once, or near the end of its life
			wait = []time.Duration{0, v - 4*time.Second, v - time.Second, v + 2*time.Second}[s.D.Decide("present-at", 4)]
		case "reissued-stale":
			created = now.Add(-time.Duration(11+s.D.Decide("age-s", 50)) * time.Second)
			expires = created.Add(5 * time.Second)
		case "reissued-not-yet-valid":
			created = now.Add(time.Duration(6+s.D.Decide("ahead-s", 50)) * time.Second)
			expires = created.Add(5 * time.Second)
		case "reissued-reused-nonce":
			var vp struct {
				Proof struct {
					Nonce string `json:"nonce"`
				} `json:"proof"`
			}
			_ = json.Unmarshal([]byte(form.Get("assertion")), &vp)
			if vp.Proof.Nonce == "" {
				s.Fail("C02.harness", "reissue", "no nonce in the captured presentation")
				return
			}
			nonce = vp.Proof.Nonce
		}
		reissued, err := cl.ReissueLDPresentation([]byte(form.Get("assertion")), created, expires, nonce)
		if err != nil {
			s.Fail("C02.harness", "reissue", "%v", err)
			return
		}
		form.Set("assertion", string(reissued))
		if wait > 0 {
			s.Advance(wait)
		}
		path := "/oauth2/vendorA/token"
		if scenario == "reissued-other-domain" {
			path = "/oauth2/vendorA2/token" // the presentation names vendorA's server as its domain
		}
		code, body := as.CallForm("POST", path, form.Encode())
		got := world.IsTokenResponse(code, body)
		sample.Answer += fmt.Sprintf(" | reissued (created %+v, valid %v, presented after %v): %d", created.Sub(now), expires.Sub(created), wait, code)
		if got && !wantToken {
			s.Fail("C02.issue", "issued:"+scenario, "an access token was issued for a presentation with the defect %q (proof created %v from now, valid for %v, presented %v later)", scenario, created.Sub(now), expires.Sub(created), wait)
			return
		}
		if !got && wantToken {
			s.Fail("C02.issue", "refused:reissued-valid", "a reissued presentation without defect (proof created %v from now, valid for %v) was refused: %d %s", created.Sub(now), expires.Sub(created), code, trunc(strings.Join(strings.Fields(string(body)), " "), 400))
			return
		}
		s.Info.Inc("reissued:" + scenario)
		rc.Nontrivial = true
		return // (virtual time has moved on: the introspection schedule below belongs to the other scenarios)
	case "other-audience-extended":
		// the URL of vendorA2's server extends vendorA's: a presentation addressed to vendorA2 presented to vendorA
		if sample.Issued {
			tr2 := cl.RequestServiceToken("vendorB", "https://nodea.sim/oauth2/vendorA2", scope, tokenType, true)
			var cap2 []byte
			for _, r := range w.HTTP.Requests() {
				if r.Method == "POST" && strings.HasSuffix(r.Path, "/oauth2/vendorA2/token") {
					cap2 = r.ReqBody
				}
			}
			if tr2.Code == 200 && cap2 != nil {
				code, body := as.CallForm("POST", "/oauth2/vendorA/token", string(cap2))
				if world.IsTokenResponse(code, body) {
					s.Fail("C02.issue", "issued:other-audience-extended", "a presentation addressed to vendorA2's server was honoured by the token endpoint of vendorA")
					return
				}
				s.Info.Inc("other-audience-extended-refused")
			} else {
				s.Info.Inc("other-audience-extended-not-reached")
			}
		}
	case "other-audience":
		if captured != nil {
			code, body := as.CallForm("POST", "/oauth2/vendorA2/token", string(captured))
			if world.IsTokenResponse(code, body) {
				s.Fail("C02.issue", "issued:other-audience", "a presentation addressed to vendorA was honoured by the token endpoint of vendorA2")
				return
			}
		}
	}

	// ---- oracle: token iff valid ----
	if valid && !sample.Issued {
		s.Fail("C02.issue", "refused:"+scenarioClass(scenario), "a request without any defect was refused: %s", sample.Answer)
		return
	}
	if !valid && sample.Issued {
		s.Fail("C02.issue", "issued:"+scenario, "an access token was issued although the request had the defect %q", scenario)
		return
	}
	if !sample.Issued {
		// tokens this node never issued are inactive
		for _, tok := range []string{"", "garbage", "eyJhbGciOiJub25lIn0.e30."} {
			if _, m := as.Introspect(tok); m != nil && m["active"] == true {
				s.Fail("C02.introspect", "unknown-active", "introspection of %q says active", tok)
				return
			}
		}
		rc.Nontrivial = true
		return
	}

	// ---- introspection over time ----
	check := func(at string, wantActive bool) bool {
		code, m := as.Introspect(tr.AccessToken)
		sample.Introspect = append(sample.Introspect, fmt.Sprintf("%s: %d active=%v", at, code, m["active"]))
		if strings.HasPrefix(scenario, "override-") && code >= 500 {
			return true // refusing to answer is a way of not being overridden
		}
		if code != 200 {
			s.Fail("C02.introspect", "status", "introspection answered %d at %s", code, at)
			return false
		}
		active, _ := m["active"].(bool)
		if active != wantActive {
			s.Fail("C02.introspect", "active:"+at, "introspection at %s (token issued at %v, lifetime %d s) says active=%v", at, issuedAt, tr.ExpiresIn, active)
			return false
		}
		if !active {
			if len(m) > 1 {
				s.Fail("C02.introspect", "inactive-leaks", "an inactive token's introspection carries more than 'active': %v", m)
				return false
			}
			return true
		}
		want := map[string]interface{}{
			"iss":       "https://nodea.sim/oauth2/vendorA",
			"client_id": "https://nodeb.sim/oauth2/vendorB",
			"scope":     scope,
		}
		for k, v := range want {
			if m[k] != v {
				s.Fail("C02.introspect", "field:"+k, "introspection at %s: %s = %v, established at issuance: %v", at, k, m[k], v)
				return false
			}
		}
		iat, _ := m["iat"].(float64)
		exp, _ := m["exp"].(float64)
		if int64(iat) != issuedAt.Unix() && int64(iat) != issuedAt.Unix()-1 {
			s.Fail("C02.introspect", "field:iat", "iat = %v, token was issued at %v", int64(iat), issuedAt.Unix())
			return false
		}
		if int(exp-iat) != tr.ExpiresIn || tr.ExpiresIn <= 0 {
			s.Fail("C02.introspect", "field:exp", "exp - iat = %v, the token response promised %d s", exp-iat, tr.ExpiresIn)
			return false
		}
		if _, isStr := m["sub"].(string); isStr && strings.Contains(m["sub"].(string), "Caresoft") {
			s.Fail("C02.introspect", "field:sub", "sub carries a credential-derived value: %v", m["sub"])
			return false
		}
		if tokenType == "" { // DPoP
			cnf, _ := m["cnf"].(map[string]interface{})
			if cnf == nil || cnf["jkt"] == nil || cnf["jkt"] == "" {
				s.Fail("C02.introspect", "field:cnf", "DPoP-bound token without key binding in introspection: cnf = %v", m["cnf"])
				return false
			}
		} else if m["cnf"] != nil && !strings.HasPrefix(scenario, "override-") {
			s.Fail("C02.introspect", "field:cnf", "bearer token with a key binding: %v", m["cnf"])
			return false
		}
		if scope == "simple" {
			if m["organization_name"] != "Caresoft B.V." || m["organization_city"] != "Caretown" {
				s.Fail("C02.introspect", "claims", "claims from the presented credential: name=%v city=%v, the credential says Caresoft B.V. / Caretown", m["organization_name"], m["organization_city"])
				return false
			}
		}
		// no credential-derived value anywhere a standard field lives
		for _, k := range []string{"iss", "client_id", "scope", "exp", "iat", "sub", "active", "cnf", "aud"} {
			if str, ok := m[k].(string); ok && strings.Contains(str, "Caresoft") {
				s.Fail("C02.introspect", "overridden:"+k, "standard field %s was overridden by a credential-derived claim: %v", k, m[k])
				return false
			}
		}
		return true
	}
	life := time.Duration(tr.ExpiresIn) * time.Second
	if !check("t0", true) {
		return
	}
	s.Advance(life - time.Duration(1+s.D.Decide("before-expiry", 600))*time.Second)
	if !check("before-expiry", true) {
		return
	}
	s.Advance(time.Duration(602+s.D.Decide("after-expiry", 3000)) * time.Second)
	if !check("after-expiry", false) {
		return
	}
	rc.Nontrivial = true
}

func scenarioClass(sc string) string {
	if strings.HasPrefix(sc, "override-") {
		return "override-scope"
	}
	return sc
}

func trunc(s string, n int) string {
	if len(s) > n {
		return s[:n]
	}
	return s
}

func walletCreds(n *world.Node, subject string) []json.RawMessage {
	code, body := n.Call("GET", "/internal/vcr/v2/holder/"+subject+"/vc", nil)
	if code != 200 {
		return nil
	}
	var out []json.RawMessage
	_ = json.Unmarshal(body, &out)
	return out
}

func removeWallet(n *world.Node, subject string) {
	for _, c := range walletCreds(n, subject) {
		var v struct {
			ID string `json:"id"`
		}
		_ = json.Unmarshal(c, &v)
		n.Call("DELETE", "/internal/vcr/v2/holder/"+subject+"/vc/"+url.PathEscape(v.ID), nil)
	}
}
