package props

import (
	"crypto/ecdsa"
	"encoding/base64"
	"encoding/json"
	"fmt"
	"net/http"
	"strings"
	"testing"
	"time"

	ssi "github.com/nuts-foundation/go-did"
	"github.com/nuts-foundation/go-did/did"
	"github.com/nuts-foundation/go-did/vc"
	"github.com/nuts-foundation/nuts-node/storage/orm"
	"verifsim/seams"
	"verifsim/simkit"
	"verifsim/world"
)

// C01 — credentials and presentations verify iff authentic, untampered, current, unrevoked.
//
// World B: an issuer/holder node and a verifier node. What is decided here is the part that
// depends on time and on history across parties: the validity window against the virtual
// clock, revocation becoming effective when it reaches the verifier, the issuer's DID being
// deactivated (its keys are no longer authorised at validation time), the round trip
// "whatever our issuer and wallet produce verifies on another node", presentations whose signer
// is not the subject of a credential, and tampering as an in-transit corruption fault with a
// fixed set of semantic mutation operators (each changes something the node acts upon).

func TestC01(t *testing.T) {
	simkit.Main(t, simkit.Spec{Property: "C01", World: "B/2nodes", Body: c01Body, MaxStepsPerRun: 40000})
}

type c01Sample struct {
	Format  string   `json:"format"`
	Expires bool     `json:"with_expiration"`
	Status  bool     `json:"with_status_list"`
	Events  []string `json:"events"`
}

// mutation operators on a JSON-LD credential / presentation (as parsed JSON)
var c01LDMutations = []string{"claim-value", "credential-id", "issuer", "subject-id", "issuance-date", "expiration-date", "status-index", "status-index-case-variant", "status-index-case-variant", "status-list", "proof-created", "proof-purpose", "proof-verification-method", "proof-signature", "type-added", "member-added"}
var c01JWTMutations = []string{"jwt-claim", "jwt-exp", "jwt-sub", "jwt-iss", "jwt-jti", "jwt-header-kid", "jwt-header-alg-none", "jwt-signature", "jwt-status"}

func mutateLD(kind string, raw []byte) []byte {
	var m map[string]interface{}
	if json.Unmarshal(raw, &m) != nil {
		return nil
	}
	subj := func() map[string]interface{} {
		switch cs := m["credentialSubject"].(type) {
		case map[string]interface{}:
			return cs
		case []interface{}:
			if len(cs) > 0 {
				if x, ok := cs[0].(map[string]interface{}); ok {
					return x
				}
			}
		}
		return nil
	}
	proof := func() map[string]interface{} {
		switch p := m["proof"].(type) {
		case map[string]interface{}:
			return p
		case []interface{}:
			if len(p) > 0 {
				if x, ok := p[0].(map[string]interface{}); ok {
					return x
				}
			}
		}
		return nil
	}
	status := func() map[string]interface{} {
		switch p := m["credentialStatus"].(type) {
		case map[string]interface{}:
			return p
		case []interface{}:
			if len(p) > 0 {
				if x, ok := p[0].(map[string]interface{}); ok {
					return x
				}
			}
		}
		return nil
	}
	switch kind {
	case "claim-value":
		cs := subj()
		if cs == nil {
			return nil
		}
		if org, ok := cs["organization"].(map[string]interface{}); ok {
			org["name"] = "Evilsoft B.V."
		} else {
			return nil
		}
	case "credential-id":
		id, _ := m["id"].(string)
		if id == "" {
			return nil
		}
		m["id"] = id + "0"
	case "issuer":
		m["issuer"] = "did:web:attacker.sim"
	case "subject-id":
		cs := subj()
		if cs == nil {
			return nil
		}
		cs["id"] = "did:web:someone-else.sim"
	case "issuance-date":
		m["issuanceDate"] = "1999-01-01T00:00:00Z"
	case "expiration-date":
		if _, ok := m["expirationDate"]; !ok {
			return nil
		}
		m["expirationDate"] = "2099-01-01T00:00:00Z"
	case "status-index":
		st := status()
		if st == nil {
			return nil
		}
		st["statusListIndex"] = "77777"
		if id, ok := st["id"].(string); ok {
			if i := strings.LastIndex(id, "#"); i > 0 {
				st["id"] = id[:i] + "#77777"
			}
		}
	case "status-index-case-variant":
		// the signed member stays; a member whose name differs in case only is added after it (json.Marshal sorts the lower-case
		// name behind the camel-case one). No JSON-LD context defines it, a decoder that matches names case-insensitively reads it.
		st := status()
		if st == nil {
			return nil
		}
		st["statuslistindex"] = "77777"
	case "status-list":
		st := status()
		if st == nil {
			return nil
		}
		st["statusListCredential"] = "https://attacker.sim/statuslist/x/1"
	case "proof-created":
		p := proof()
		if p == nil {
			return nil
		}
		p["created"] = "2001-01-01T00:00:00Z"
	case "proof-purpose":
		p := proof()
		if p == nil {
			return nil
		}
		p["proofPurpose"] = "authentication"
	case "proof-verification-method":
		p := proof()
		if p == nil {
			return nil
		}
		vm, _ := p["verificationMethod"].(string)
		p["verificationMethod"] = vm + "x"
	case "proof-signature":
		p := proof()
		if p == nil {
			return nil
		}
		jws, _ := p["jws"].(string)
		if len(jws) < 20 {
			return nil
		}
		b := []byte(jws)
		i := len(b) - 10
		if b[i] == 'A' {
			b[i] = 'B'
		} else {
			b[i] = 'A'
		}
		p["jws"] = string(b)
	case "type-added":
		switch t := m["type"].(type) {
		case []interface{}:
			m["type"] = append(t, "NutsAuthorizationCredential")
		default:
			return nil
		}
	case "member-added":
		cs := subj()
		if cs == nil {
			return nil
		}
		if org, ok := cs["organization"].(map[string]interface{}); ok {
			org["city"] = "Othertown"
		} else {
			return nil
		}
	}
	out, _ := json.Marshal(m)
	return out
}

func mutateJWT(kind string, raw []byte) []byte {
	var jwt string
	if json.Unmarshal(raw, &jwt) != nil {
		jwt = strings.Trim(string(raw), "\"\n ")
	}
	parts := strings.Split(jwt, ".")
	if len(parts) != 3 {
		return nil
	}
	hb, _ := base64.RawURLEncoding.DecodeString(parts[0])
	pb, _ := base64.RawURLEncoding.DecodeString(parts[1])
	var h, p map[string]interface{}
	if json.Unmarshal(hb, &h) != nil || json.Unmarshal(pb, &p) != nil {
		return nil
	}
	vcOf := func() map[string]interface{} {
		v, _ := p["vc"].(map[string]interface{})
		return v
	}
	switch kind {
	case "jwt-claim":
		vc := vcOf()
		if vc == nil {
			return nil
		}
		b, _ := json.Marshal(vc)
		var v2 map[string]interface{}
		json.Unmarshal([]byte(strings.Replace(string(b), "Caresoft B.V.", "Evilsoft B.V.", 1)), &v2)
		p["vc"] = v2
	case "jwt-exp":
		if _, ok := p["exp"]; !ok {
			return nil
		}
		p["exp"] = 4102444800
	case "jwt-sub":
		p["sub"] = "did:web:someone-else.sim"
	case "jwt-iss":
		p["iss"] = "did:web:attacker.sim"
	case "jwt-jti":
		jti, _ := p["jti"].(string)
		p["jti"] = jti + "0"
	case "jwt-header-kid":
		kid, _ := h["kid"].(string)
		h["kid"] = kid + "x"
	case "jwt-header-alg-none":
		h["alg"] = "none"
		parts[2] = ""
	case "jwt-signature":
		sig, _ := base64.RawURLEncoding.DecodeString(parts[2])
		if len(sig) < 8 {
			return nil
		}
		sig[len(sig)/2] ^= 0x10
		parts[2] = base64.RawURLEncoding.EncodeToString(sig)
	case "jwt-status":
		vc := vcOf()
		if vc == nil || vc["credentialStatus"] == nil {
			return nil
		}
		b, _ := json.Marshal(vc["credentialStatus"])
		var st interface{}
		json.Unmarshal([]byte(strings.Replace(string(b), "nodeb.sim/statuslist", "attacker.sim/statuslist", 1)), &st)
		vc["credentialStatus"] = st
	}
	hb2, _ := json.Marshal(h)
	pb2, _ := json.Marshal(p)
	out := base64.RawURLEncoding.EncodeToString(hb2) + "." + base64.RawURLEncoding.EncodeToString(pb2) + "." + parts[2]
	b, _ := json.Marshal(out)
	return b
}

func c01Body(s *simkit.Sim, rc *simkit.RunCtx) {
	sample := &c01Sample{}
	rc.Sample = sample
	w := world.New(s, rc)
	defer w.Shutdown()
	iss, err := w.StartNode(world.NodeOpts{Name: "nodeb", DIDMethods: "web", Web: true})
	if err != nil {
		s.Fail("C01.harness", "start", "%v", err)
		return
	}
	ver, err := w.StartNode(world.NodeOpts{Name: "nodea", DIDMethods: "web", Web: true})
	if err != nil {
		s.Fail("C01.harness", "start", "%v", err)
		return
	}
	format := []string{"ldp_vc", "jwt_vc"}[s.D.Decide("format", 2)]
	withExp := s.D.Decide("expires", 2) == 1
	withStatus := s.D.Decide("status", 2) == 1 || !withExp
	sample.Format, sample.Expires, sample.Status = format, withExp, withStatus
	issuerDIDs, err := iss.CreateSubject("issuer")
	if err != nil {
		s.Fail("C01.harness", "subject", "%v", err)
		return
	}
	holderDIDs, err := iss.CreateSubject("holder")
	if err != nil {
		s.Fail("C01.harness", "subject", "%v", err)
		return
	}
	issuerDID, holderDID := issuerDIDs[0], holderDIDs[0]
	lifetime := time.Duration(10+s.D.Decide("lifetime-min", 120)) * time.Minute
	req := map[string]interface{}{
		"type":   "NutsOrganizationCredential",
		"issuer": issuerDID,
		"format": format,
		"credentialSubject": map[string]interface{}{
			"id":           holderDID,
			"organization": map[string]string{"name": "Caresoft B.V.", "city": "Caretown"},
		},
		"withStatusList2021Revocation": withStatus,
	}
	issuedAt := time.Now()
	var expiresAt time.Time
	if withExp {
		expiresAt = issuedAt.Add(lifetime)
		req["expirationDate"] = expiresAt.UTC().Format(time.RFC3339)
	}
	code, cred := iss.Call("POST", "/internal/vcr/v2/issuer/vc", req)
	if code != 200 {
		s.Fail("C01.harness", "issue", "%d %s", code, cred)
		return
	}
	credID := ""
	if format == "ldp_vc" {
		var c struct {
			ID string `json:"id"`
		}
		_ = json.Unmarshal(cred, &c)
		credID = c.ID
	} else {
		var jwt string
		_ = json.Unmarshal(cred, &jwt)
		if parts := strings.Split(jwt, "."); len(parts) == 3 {
			pb, _ := base64.RawURLEncoding.DecodeString(parts[1])
			var p struct {
				Jti string `json:"jti"`
			}
			_ = json.Unmarshal(pb, &p)
			credID = p.Jti
		}
	}
	s.Enable(true)

	verifyVC := func(body []byte) (bool, string) {
		var out struct {
			Validity bool    `json:"validity"`
			Message  *string `json:"message"`
		}
		var code int
		var rb []byte
		s.Do("verify", time.Minute, func() {
			code, rb = ver.Call("POST", "/internal/vcr/v2/verifier/vc", map[string]interface{}{"verifiableCredential": json.RawMessage(body)})
		})
		_ = json.Unmarshal(rb, &out)
		msg := ""
		if out.Message != nil {
			msg = *out.Message
		}
		if code != 200 {
			msg = fmt.Sprintf("HTTP %d %s", code, trunc(string(rb), 200))
		}
		return code == 200 && out.Validity, msg
	}
	verifyVP := func(body []byte) (bool, string) {
		var out struct {
			Validity bool    `json:"validity"`
			Message  *string `json:"message"`
		}
		var code int
		var rb []byte
		s.Do("verify-vp", time.Minute, func() {
			code, rb = ver.Call("POST", "/internal/vcr/v2/verifier/vp", map[string]interface{}{"verifiablePresentation": json.RawMessage(body), "verifyCredentials": true})
		})
		_ = json.Unmarshal(rb, &out)
		msg := ""
		if out.Message != nil {
			msg = *out.Message
		}
		if code != 200 {
			msg = fmt.Sprintf("HTTP %d %s", code, trunc(string(rb), 200))
		}
		return code == 200 && out.Validity, msg
	}

	// ---- model ----
	revoked := false        // the issuer revoked
	revokedKnownBy := false // ... and the verifier has downloaded the list since
	issuerActive := true
	trusted := false           // the verifier trusts the issuer for this credential type
	var lastDownload time.Time // the verifier's last download of the status list (observed at the transport)
	w.HTTP.Observe = func(rec *seams.HTTPRecord) {
		if rec.Method == "GET" && strings.Contains(rec.Path, "/statuslist/") && rec.Status == 200 && rec.Fault == "" {
			lastDownload = time.Now()
			if revoked {
				revokedKnownBy = true
			}
		}
	}
	expect := func() (bool, string) {
		now := time.Now()
		switch {
		case withExp && now.After(expiresAt.Add(5*time.Second)):
			return false, "expired"
		case !issuerActive:
			return false, "issuer-deactivated"
		case revoked && revokedKnownBy:
			return false, "revoked"
		}
		return true, ""
	}
	nearExpiry := func() bool {
		return withExp && time.Now().After(expiresAt.Add(-6*time.Second)) && time.Now().Before(expiresAt.Add(6*time.Second))
	}
	event := func(e string) {
		sample.Events = append(sample.Events, fmt.Sprintf("+%v %s", time.Since(issuedAt).Round(time.Second), e))
	}

	nev := 4 + s.D.Decide("events", 6)
	var pending []string
	for k := 0; (k < nev || len(pending) > 0) && !s.Failed(); k++ {
		pick := func(evs []string) string {
			if len(pending) > 0 {
				e := pending[0]
				pending = pending[1:]
				return e
			}
			return evs[s.D.Decide("event", len(evs))]
		}
		switch ev := pick([]string{"verify", "verify", "tamper", "tamper", "advance", "advance-past-expiry", "revoke", "deactivate-issuer", "presentation", "presentation-tamper", "presentation-foreign", "presentation-self-attested-first", "jwt-kid-of-extending-did", "backdated-with-later-key",
			"trust-add", "trust-remove", "restart-verifier", "verify-trust-required", "verify-trust-required"}); ev {
		case "trust-add", "trust-remove":
			var terr error
			s.Do(ev, time.Minute, func() {
				if ev == "trust-add" {
					terr = ver.VCR().Trust(ssi.MustParseURI("NutsOrganizationCredential"), ssi.MustParseURI(issuerDID))
				} else {
					terr = ver.VCR().Untrust(ssi.MustParseURI("NutsOrganizationCredential"), ssi.MustParseURI(issuerDID))
				}
			})
			if terr != nil {
				s.Fail("C01.harness", ev, "%v", terr)
				return
			}
			trusted = ev == "trust-add"
			event(ev)
			if s.D.Decide("then-restart-and-verify", 3) == 1 {
				pending = append(pending, "restart-verifier!", "verify-trust-required")
			}
		case "restart-verifier", "restart-verifier!":
			if ev == "restart-verifier" && s.D.Decide("really-restart", 2) != 0 {
				continue
			}
			graceful := s.D.Decide("graceful", 2) == 1
			s.Enable(false)
			w.Stop("nodea", !graceful)
			nv, rerr := w.StartNode(ver.Opts)
			s.Enable(true)
			if rerr != nil {
				s.Fail("C01.harness", "restart", "%v", rerr)
				return
			}
			ver = nv
			event(fmt.Sprintf("restart verifier (graceful=%v)", graceful))
			s.Info.Inc("verifier-restarted")
		case "verify-trust-required":
			if nearExpiry() || !issuerActive {
				continue
			}
			credString := string(cred)
			if format == "jwt_vc" {
				_ = json.Unmarshal(cred, &credString)
			}
			parsed, perr := vc.ParseVerifiableCredential(credString)
			if perr != nil {
				s.Fail("C01.harness", "parse", "%v", perr)
				return
			}
			mustRefresh := lastDownload.IsZero() || time.Since(lastDownload) > 16*time.Minute
			var verr error
			s.Do("verify-trust-required", time.Minute, func() { verr = ver.VCR().Verifier().Verify(*parsed, false, true, nil) })
			want, why := expect()
			if want && !trusted {
				want, why = false, "untrusted-issuer"
			}
			event(fmt.Sprintf("verify with trust required -> %v (model %v %s)", verr == nil, want, why))
			s.Info.Inc("verify-trust-required")
			if revoked && !revokedKnownBy && (!mustRefresh || verr != nil) {
				continue
			}
			if (verr == nil) != want {
				site := "accepted:" + why
				if want {
					site = "refused-valid-trusted"
				}
				s.Fail("C01.verdict", site, "%s credential verified=%v with trust required, model says %v (%s); trusted=%v; events: %v; error: %v", format, verr == nil, want, why, trusted, sample.Events, verr)
				return
			}
		case "backdated-with-later-key":
			// The issuer gets a second assertion key. A credential signed with that key but dated before the key
			// existed must not verify at a validation time before the key was added (the issuer's own node judges:
			// it knows the history of its DID document); at the present time it does verify (control).
			if format != "jwt_vc" || !issuerActive || revoked || (withExp && time.Now().After(expiresAt.Add(-10*time.Minute))) {
				continue
			}
			beforeKey := time.Now()
			s.Advance(time.Minute)
			var vms []did.VerificationMethod
			var aerr error
			s.Do("add-key", time.Minute, func() { vms, aerr = iss.VDR.AddVerificationMethod(world.Ctx(), "issuer", orm.AssertionKeyUsage()) })
			if aerr != nil || len(vms) == 0 {
				s.Fail("C01.harness", "add-key", "%v", aerr)
				return
			}
			s.Advance(time.Minute)
			var jwtCred string
			_ = json.Unmarshal(cred, &jwtCred)
			var forged string
			var ferr error
			s.Do("sign-backdated", time.Minute, func() {
				forged, ferr = iss.SignJWTLike(jwtCred, vms[0].ID.String(), func(claims map[string]interface{}) {
					claims["nbf"] = beforeKey.Add(-30 * time.Second).Unix()
					claims["jti"] = fmt.Sprintf("%s#backdated-%d", issuerDID, k)
				})
			})
			if ferr != nil {
				s.Fail("C01.harness", "sign-backdated", "%v", ferr)
				return
			}
			parsed, perr := vc.ParseVerifiableCredential(forged)
			if perr != nil {
				s.Fail("C01.harness", "parse-backdated", "%v", perr)
				return
			}
			verifyAt := func(at time.Time) error {
				var verr error
				s.Do("verify-at", time.Minute, func() { verr = iss.VCR().Verifier().Verify(*parsed, true, true, &at) })
				return verr
			}
			if cerr := verifyAt(time.Now()); cerr != nil {
				s.Info.Inc("backdated-control-not-valid-now")
				event("backdated credential: not valid at present either (" + trunc(cerr.Error(), 80) + ")")
				continue
			}
			at := beforeKey.Add(time.Duration(s.D.Decide("validation-offset-s", 50)) * time.Second)
			verr := verifyAt(at)
			event(fmt.Sprintf("backdated credential signed with a key added later, judged at a time before the key -> %v", verr == nil))
			s.Info.Inc("backdated-with-later-key")
			if verr == nil {
				s.Fail("C01.verdict", "accepted:key-added-after-validation-time", "a %s credential signed with key %s verified at validation time %v, %v before that key was added to the issuer's DID document", format, vms[0].ID.Fragment, at.Sub(issuedAt), beforeKey.Add(time.Minute).Sub(at))
				return
			}
		case "verify":
			if nearExpiry() {
				continue
			}
			// the verifier downloads the list on first use and again when its copy is older than 15 minutes
			mustRefresh := lastDownload.IsZero() || time.Since(lastDownload) > 16*time.Minute
			ok, msg := verifyVC(cred)
			want, why := expect()
			event(fmt.Sprintf("verify -> %v (model %v %s)", ok, want, why))
			if revoked && !revokedKnownBy && !mustRefresh {
				continue // it may still work with a copy from before the revocation: both answers are fine
			}
			if revoked && !revokedKnownBy && mustRefresh && issuerActive && ok {
				s.Fail("C01.verdict", "accepted:revoked-after-refresh-due", "revoked %s credential verified although the verifier's copy of the list was older than 15 minutes (or absent) and the issuer reachable", format)
				return
			}
			if ok != want {
				site := "accepted:" + why
				if want {
					site = "refused-valid"
				}
				s.Fail("C01.verdict", site, "%s credential verified=%v at +%v, model says %v (%s); issued with expiry=%v status=%v; message: %s", format, ok, time.Since(issuedAt), want, why, withExp, withStatus, msg)
				return
			}
		case "tamper":
			var kind string
			var mut []byte
			if format == "ldp_vc" {
				kind = c01LDMutations[s.D.Decide("ld-mutation", len(c01LDMutations))]
				mut = mutateLD(kind, cred)
			} else {
				kind = c01JWTMutations[s.D.Decide("jwt-mutation", len(c01JWTMutations))]
				mut = mutateJWT(kind, cred)
			}
			if mut == nil {
				continue
			}
			ok, _ := verifyVC(mut)
			event("tamper " + kind + fmt.Sprintf(" -> %v", ok))
			s.Info.Inc("tamper:" + kind)
			if ok {
				s.Fail("C01.tamper", kind, "a %s credential changed in transit (%s) still verifies", format, kind)
				return
			}
		case "advance":
			d := time.Duration(1+s.D.Decide("advance-min", 40)) * time.Minute
			s.Advance(d)
			event("advance " + d.String())
		case "advance-past-expiry":
			if !withExp || time.Now().After(expiresAt) {
				continue
			}
			s.Advance(time.Until(expiresAt) + time.Duration(10+s.D.Decide("past", 600))*time.Second)
			event("advance past expiry")
		case "revoke":
			if !withStatus || revoked || !issuerActive {
				continue
			}
			var rc2 int
			var rb []byte
			s.Do("revoke", time.Minute, func() { rc2, rb = iss.Revoke(credID) })
			if rc2 != 204 && rc2 != 200 {
				s.Fail("C01.harness", "revoke", "%d %s", rc2, rb)
				return
			}
			revoked = true
			event("revoke")
		case "deactivate-issuer":
			if !issuerActive || s.D.Decide("really-deactivate", 3) != 0 {
				continue
			}
			var derr error
			s.Do("deactivate", time.Minute, func() { derr = iss.VDR.Deactivate(world.Ctx(), "issuer") })
			if derr != nil {
				s.Fail("C01.harness", "deactivate", "%v", derr)
				return
			}
			issuerActive = false
			event("deactivate issuer")
		case "jwt-kid-of-extending-did":
			// a JWT credential of an external did:web issuer, signed with a key of another DID whose identifier extends the
			// issuer's (did:web:<host> / did:web:<host>:users:m), next to a control signed with the issuer's own key
			extHost := "issuer-ext.sim"
			issuerExt, otherExt := "did:web:"+extHost, "did:web:"+extHost+":users:m"
			k0, k1 := world.NewKey(), world.NewKey()
			mkDoc := func(id string, key *ecdsa.PrivateKey) []byte {
				d := did.MustParseDID(id)
				vm, err := did.NewVerificationMethod(did.DIDURL{DID: d, Fragment: "k"}, ssi.JsonWebKey2020, d, key.Public())
				if err != nil {
					return nil
				}
				doc := did.Document{Context: []interface{}{did.DIDContextV1URI(), ssi.MustParseURI("https://w3id.org/security/suites/jws-2020/v1")}, ID: d}
				doc.AddAssertionMethod(vm)
				b, _ := json.Marshal(doc)
				return b
			}
			docs := map[string][]byte{"/.well-known/did.json": mkDoc(issuerExt, k0), "/users/m/did.json": mkDoc(otherExt, k1)}
			w.HTTP.Handle(extHost, func(req *http.Request) *http.Response {
				if b, ok := docs[req.URL.Path]; ok && b != nil {
					return jsonResp(200, "application/did+json", b, nil)
				}
				return jsonResp(404, "text/plain", []byte("not found"), nil)
			})
			mkJWT := func(kid string, key *ecdsa.PrivateKey) string {
				hdr, _ := json.Marshal(map[string]interface{}{"alg": "ES256", "typ": "JWT", "kid": kid})
				claims, _ := json.Marshal(map[string]interface{}{
					"iss": issuerExt, "sub": holderDID, "nbf": time.Now().Add(-time.Minute).Unix(), "jti": issuerExt + "#" + fmt.Sprintf("ext-%d", k),
					"vc": map[string]interface{}{
						"@context":          []string{"https://www.w3.org/2018/credentials/v1"},
						"type":              []string{"VerifiableCredential", "ExternalCredential"},
						"credentialSubject": map[string]interface{}{"id": holderDID},
					},
				})
				in := base64.RawURLEncoding.EncodeToString(hdr) + "." + base64.RawURLEncoding.EncodeToString(claims)
				return in + "." + world.SignES256(in, key)
			}
			verifyJWT := func(tok string) (bool, string) {
				var code int
				var rb []byte
				b, _ := json.Marshal(tok)
				s.Do("verify-ext", time.Minute, func() {
					code, rb = ver.Call("POST", "/internal/vcr/v2/verifier/vc", map[string]interface{}{"verifiableCredential": json.RawMessage(b)})
				})
				var res struct {
					Validity bool   `json:"validity"`
					Message  string `json:"message"`
				}
				_ = json.Unmarshal(rb, &res)
				return code == 200 && res.Validity, fmt.Sprintf("%d %s", code, trunc(string(rb), 200))
			}
			okControl, msgControl := verifyJWT(mkJWT(issuerExt+"#k", k0))
			okForeign, _ := verifyJWT(mkJWT(otherExt+"#k", k1))
			event(fmt.Sprintf("external JWT credential: own key -> %v, key of a DID extending the issuer's -> %v", okControl, okForeign))
			if okForeign {
				s.Fail("C01.verdict", "accepted:key-of-did-extending-issuer", "a JWT credential of %s signed with a key of %s verifies", issuerExt, otherExt)
				return
			}
			if okControl {
				s.Probes.Inc("external-jwt-credential-accepted")
			} else {
				s.Info.Inc("external-jwt-control-refused")
				if debugGaps {
					fmt.Println("EXT control refused:", msgControl)
				}
			}
		case "presentation-self-attested-first":
			// a presentation whose first credential is a claim of the holder itself (no proof of its own: covered by the
			// presentation's proof) and whose second one is the issued credential, valid as a control or changed afterwards
			if nearExpiry() || format != "ldp_vc" {
				continue
			}
			want, why := expect()
			if (revoked && !revokedKnownBy) || (time.Since(lastDownload) > 14*time.Minute && revoked) {
				continue
			}
			selfAttested, _ := json.Marshal(map[string]interface{}{
				"@context":          []string{"https://www.w3.org/2018/credentials/v1", "https://nuts.nl/credentials/v1"},
				"id":                holderDID + "#" + fmt.Sprintf("self-%d", k),
				"type":              []string{"VerifiableCredential", "DiscoveryRegistrationCredential"},
				"issuer":            holderDID,
				"issuanceDate":      time.Now().Add(-time.Second).UTC().Format(time.RFC3339),
				"credentialSubject": map[string]interface{}{"id": holderDID, "k": "v"},
			})
			second := cred
			tampered := s.D.Decide("self-attested-then", 2) == 1
			if tampered {
				second = json.RawMessage(strings.Replace(string(cred), "Caresoft B.V.", "Evilsoft B.V.", 1))
				if string(second) == string(cred) {
					continue
				}
			}
			var vp []byte
			var verr error
			s.Do("create-vp", time.Minute, func() {
				// (the wallet API refuses credentials without proof: the holder's operator builds it with the wallet code)
				vp, verr = iss.BuildLDPresentation([]json.RawMessage{selfAttested, second}, holderDID, time.Now().Add(10*time.Minute))
			})
			if verr != nil {
				s.Info.Inc("self-attested-presentation-not-created")
				if debugGaps {
					fmt.Println("SELF-ATTESTED vp not created:", verr)
				}
				continue
			}
			ok, msg := verifyVP(vp)
			event(fmt.Sprintf("presentation [holder's own claim, credential tampered=%v] -> %v", tampered, ok))
			if tampered && ok {
				s.Fail("C01.tamper", "presentation:credential-after-self-attested", "a presentation with a holder claim followed by a credential changed after signing verifies")
				return
			}
			if !tampered {
				if ok != want {
					if want {
						s.Info.Inc("self-attested-control-refused")
						if debugGaps {
							fmt.Println("SELF-ATTESTED control refused:", msg)
						}
					} else {
						s.Fail("C01.verdict", "presentation-accepted:"+why, "presentation with a holder claim and the credential verified=true, model says false (%s)", why)
						return
					}
				} else if ok {
					s.Probes.Inc("presentation-with-self-attested-credential-accepted")
				}
			}
		case "presentation", "presentation-tamper", "presentation-foreign":
			if nearExpiry() {
				continue
			}
			want, why := expect()
			if revoked && !revokedKnownBy {
				continue
			}
			if time.Since(lastDownload) > 14*time.Minute && revoked {
				continue
			}
			vpFormat := map[string]string{"ldp_vc": "ldp_vp", "jwt_vc": "jwt_vp"}[format]
			signer := holderDID
			if ev == "presentation-foreign" {
				signer = issuerDID // signs a presentation with a credential about the holder: signer is not the subject
			}
			var code int
			var vp []byte
			s.Do("create-vp", time.Minute, func() {
				code, vp = iss.Call("POST", "/internal/vcr/v2/holder/vp", map[string]interface{}{"signerDID": signer, "format": vpFormat,
					"verifiableCredentials": []json.RawMessage{cred}, "expires": time.Now().Add(10 * time.Minute).UTC().Format(time.RFC3339)})
			})
			if code != 200 {
				// the holder's own node refuses to present what it considers invalid: fine when the model agrees
				if want && issuerActive && ev == "presentation" {
					s.Fail("C01.roundtrip", "presentation-refused", "the wallet refused to present a credential the model considers valid: %d %s", code, trunc(string(vp), 200))
					return
				}
				continue
			}
			switch ev {
			case "presentation":
				ok, msg := verifyVP(vp)
				event(fmt.Sprintf("presentation -> %v (model %v %s)", ok, want, why))
				if ok != want {
					site := "presentation-accepted:" + why
					if want {
						site = "presentation-refused-valid"
					}
					s.Fail("C01.verdict", site, "%s presentation verified=%v, model says %v (%s): %s", vpFormat, ok, want, why, msg)
					return
				}
			case "presentation-foreign":
				ok, _ := verifyVP(vp)
				event(fmt.Sprintf("presentation signed by non-subject -> %v", ok))
				s.Info.Inc("presentation-by-non-subject")
				if ok {
					s.Info.Inc("presentation-by-non-subject-accepted-by-generic-verifier")
				}
			case "presentation-tamper":
				var mut []byte
				kind := ""
				if format == "ldp_vc" {
					kind = []string{"proof-signature", "proof-created", "holder", "swap-credential-claim"}[s.D.Decide("vp-mutation", 4)]
					var m map[string]interface{}
					if json.Unmarshal(vp, &m) != nil {
						continue
					}
					switch kind {
					case "holder":
						m["holder"] = "did:web:attacker.sim"
						mut, _ = json.Marshal(m)
					case "swap-credential-claim":
						b, _ := json.Marshal(m)
						mut = []byte(strings.Replace(string(b), "Caresoft B.V.", "Evilsoft B.V.", 1))
					default:
						mut = mutateLD(kind, vp)
					}
				} else {
					kind = []string{"jwt-signature", "jwt-iss", "jwt-header-kid", "jwt-exp"}[s.D.Decide("vp-mutation", 4)]
					mut = mutateJWT(kind, vp)
				}
				if mut == nil {
					continue
				}
				ok, _ := verifyVP(mut)
				event("presentation tamper " + kind + fmt.Sprintf(" -> %v", ok))
				s.Info.Inc("vp-tamper:" + kind)
				if ok {
					s.Fail("C01.tamper", "presentation:"+kind, "a %s presentation changed in transit (%s) still verifies", vpFormat, kind)
					return
				}
			}
		}
	}
	rc.Nontrivial = len(sample.Events) > 1
}
