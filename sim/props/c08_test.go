package props

import (
	"context"
	"fmt"
	"sync/atomic"
	"testing"
	"time"

	"github.com/nuts-foundation/go-stoabs"
	"github.com/nuts-foundation/nuts-node/crypto/hash"
	"github.com/nuts-foundation/nuts-node/network/dag"
	"verifsim/seams"
	"verifsim/simkit"
	"verifsim/world"
)

// C08 — digests, indexes, head and counters equal what the stored set implies.
//
// World A, one real Network engine node. Submitter tasks add corpus transactions through the
// real State.Add concurrently (duplicates, out-of-order, siblings). Faults: every KV
// operation of every write transaction, commit failure, and the crash points. Oracle: the
// reference fold over the clock-ordered listing, at quiescent points, after every fault, on a
// fresh State over the same store, and after a real restart from the files.

func TestC08(t *testing.T) {
	simkit.Main(t, simkit.Spec{Property: "C08", World: "A/1node", Body: c08Body, Enumerate: envEnum(), MaxStepsPerRun: 60000})
}

type c08Sample struct {
	Txs              int      `json:"transactions"`
	Preloaded        int      `json:"preloaded_chain"`
	Tasks            int      `json:"submitter_tasks"`
	FaultKinds       []string `json:"fault_kinds_enabled,omitempty"`
	EnumPoint        string   `json:"enumerated_fault_point,omitempty"`
	Offers           int      `json:"offers"`
	Stored           int      `json:"stored"`
	HighClock        uint32   `json:"highest_clock"`
	Restarts         int      `json:"restarts"`
	Repair           bool     `json:"repair_scenario,omitempty"`
	ConcurrentRepair bool     `json:"repair_running_during_adds,omitempty"`
}

func c08Body(s *simkit.Sim, rc *simkit.RunCtx) {
	h := newDagHarness(s, rc)
	defer h.finish()
	sample := &c08Sample{}
	rc.Sample = sample
	enum := rc.Plan != nil

	// ---- shape of the run (swarm) ----
	size := 4 + s.D.Decide("size", 28)
	preload := 0
	shape := s.D.Decide("shape", 20)
	if enum {
		size = 3 + s.D.Decide("size", 9)
	} else if shape == 19 || (rc.Tier == "thorough" && shape >= 16) {
		// clocks crossing page and tree-growth boundaries (512, 1024, 2048)
		preload = []int{505, 1018, 2040, 520, 1030}[s.D.Decide("preload", 5)]
	}
	ntasks := 2 + s.D.Decide("tasks", 3)
	repair := !enum && s.D.Decide("repair", 8) == 7
	// the repair procedure running (circuit red) while transactions are being added
	concurrentRepair := !enum && !repair && s.D.Decide("repair-concurrent", 6) == 5
	sample.Txs, sample.Preloaded, sample.Tasks, sample.Repair, sample.ConcurrentRepair = size, preload, ntasks, repair, concurrentRepair

	// ---- faults ----
	f := h.w.F
	f.Filter = func(kind, site string) bool {
		// faults are placed in the DAG store; the ledger subscriber's own bookkeeping is not under test here
		return true
	}
	if enum {
		f.Enum = true
		f.Target = rc.Plan["target"]
	} else {
		kinds := []struct {
			k    string
			rate int
		}{{seams.KVOpErr, 15}, {seams.KVCommitFail, 40}, {seams.KVCrashBeforeCommit, 15}, {seams.KVCrashAfterCommit, 15}, {seams.KVCrashBetweenHooks, 15}, {seams.KVCrashBeforeTx, 8}, {seams.KVCtxCancel, 30}}
		mode := s.D.Decide("faultmode", 4) // 0: fault-free batch
		for _, k := range kinds {
			if concurrentRepair && len(k.k) > 5 && k.k[:5] == "crash" {
				continue
			}
			if mode != 0 && s.D.Decide("enable "+k.k, 2) == 1 {
				f.Rates[k.k] = k.rate
				sample.FaultKinds = append(sample.FaultKinds, k.k)
			}
		}
		f.MaxFaults = 6
	}

	if concurrentRepair {
		// in this single-node world nothing else takes the repair's own mutex, so its store
		// transactions may be scheduled like any other (no pass-through)
		s.PassThrough = nil
	}
	n := h.start()
	if concurrentRepair {
		for i := 0; i < 3; i++ {
			n.State().IncorrectStateDetected()
		}
	}
	// ---- corpus ----
	root := h.corpus.Root()
	// sometimes the very first transaction is offered by the tasks, under faults like the others (rollback on an empty DAG)
	rootUnderFaults := preload == 0 && !repair && !concurrentRepair && s.D.Decide("root-under-faults", 5) == 4
	if !rootUnderFaults {
		if err := h.node().State().Add(context.Background(), root.Tx, root.Payload); err != nil {
			s.Fail("C08.harness", "root", "root rejected: %v", err)
			return
		}
	}
	if preload > 0 {
		for _, t := range h.corpus.Chain(root, preload, "pre") {
			if err := h.node().State().Add(context.Background(), t.Tx, t.Payload); err != nil {
				s.Fail("C08.harness", "preload", "preload rejected: %v", err)
				return
			}
		}
	}
	base := len(h.corpus.Valid)
	for i := 0; i < size; i++ {
		h.corpus.Extend("gen")
	}
	work := h.corpus.Valid[base:]

	// ---- tasks ----
	lists := make([][]*world.CTx, ntasks)
	for _, t := range work {
		a := s.D.Decide("assign", ntasks)
		lists[a] = append(lists[a], t)
		if s.D.Decide("dup", 3) == 2 { // the same transaction from a second task
			b := (a + 1 + s.D.Decide("dup-task", ntasks-1)) % ntasks
			lists[b] = append(lists[b], t)
		}
	}
	if rootUnderFaults {
		lists[0] = append([]*world.CTx{root}, lists[0]...)
	}
	// local reordering: swap neighbours so that some arrive before their prevs
	for _, l := range lists {
		for i := 0; i+1 < len(l); i++ {
			if s.D.Decide("swap", 5) == 4 {
				l[i], l[i+1] = l[i+1], l[i]
			}
		}
	}
	h.foldEvery = 1
	if preload > 0 {
		h.foldEvery = 25
	}
	s.OnQuiesce = append(s.OnQuiesce, h.restartCrashed, h.foldAtQuiescence)
	s.Enable(true)
	f.Arm(true)
	var running atomic.Int32
	for ti := range lists {
		ti := ti
		running.Add(1)
		s.Go(fmt.Sprintf("sub%d", ti), func() {
			defer running.Add(-1)
			queue := append([]*world.CTx(nil), lists[ti]...)
			retries := map[*world.CTx]int{}
			for len(queue) > 0 && !s.Failed() {
				t := queue[0]
				queue = queue[1:]
				if concurrentRepair {
					time.Sleep(time.Duration(1+s.D.Decide("pause", 6)) * time.Second)
				}
				o := h.offerTx(fmt.Sprintf("sub%d", ti), t)
				if o.Crashed {
					s.Yield("after-crash")
					queue = append(queue, t)
					continue
				}
				if o.Err != nil && retries[t] < 4 {
					retries[t]++
					queue = append(queue, t)
				}
			}
		})
	}
	s.RunUntil(func() bool { return running.Load() == 0 }, 30*time.Minute, time.Second)
	f.Arm(false)
	s.Settle()
	h.restartCrashed()
	if enum {
		rc.PlanPoints = f.Count
		sample.EnumPoint = f.Fired
		rc.Signature = fmt.Sprintf("case%d/%s", rc.Run, f.Fired)
	}
	sample.Offers = len(h.offers)
	sample.Restarts = h.w.Gens[h.name] - 1
	if s.Failed() {
		return
	}

	// ---- final oracles ----
	fold, v := world.CheckFold(h.node().State(), []uint32{uint32(s.D.Decide("extra-clock", 3000))})
	if v != nil {
		s.Fail(v.Invariant, "final", "%s", v.Msg)
		return
	}
	sample.Stored, sample.HighClock = fold.Count, fold.High
	stored := map[hash.SHA256Hash]bool{}
	for _, r := range fold.Refs {
		stored[r] = true
	}
	known := map[hash.SHA256Hash]bool{}
	for _, t := range h.corpus.Valid {
		known[t.Ref] = true
	}
	for r := range stored {
		if !known[r] {
			s.Fail("C08.index", "final", "stored transaction %s was never offered", r)
			return
		}
	}
	for r := range h.acked {
		if !stored[r] {
			s.Fail("C08.index", "final", "transaction %s was acknowledged by Add but is not in the stored set", r)
			return
		}
	}
	// fresh State over the same store: persisted trees must equal the recomputation
	if v := reopenFold(h.node()); v != nil {
		s.Fail("C08.reopen", v.Invariant, "fresh State over the same store: %s", v.Msg)
		return
	}
	// real restart from the files
	s.Enable(false)
	if _, err := h.w.Restart(h.name); err != nil {
		s.Fail("C08.harness", "restart", "restart failed: %v", err)
		return
	}
	fold2, v := world.CheckFold(h.node().State(), nil)
	if v != nil {
		s.Fail("C08.reopen", v.Invariant, "after restart: %s", v.Msg)
		return
	}
	if fold2.Count != fold.Count {
		s.Fail("C08.reopen", "count", "stored set changed over restart: %d -> %d", fold.Count, fold2.Count)
		return
	}
	if repair {
		c08Repair(s, h, fold2)
	}
	rc.Nontrivial = len(h.offers) > 0 && (s.NonFIFO > 0 || len(s.Faults.Map()) > 0)
	s.Info.Addn("fold-evaluations", h.foldRuns)
}

func reopenFold(n *world.Node) *world.FoldViolation {
	st, err := dag.NewState(n.DagKV().Real, dag.NewPrevTransactionsVerifier())
	if err != nil {
		return &world.FoldViolation{Invariant: "C08.reopen", Msg: err.Error()}
	}
	if err := st.Configure(coreCfg()); err != nil {
		return &world.FoldViolation{Invariant: "C08.reopen", Msg: err.Error()}
	}
	_, v := world.CheckFold(st, nil)
	return v
}

// c08Repair corrupts the stored XOR leaf of one page while the node is down and lets the real
// repair procedure (triggered as gossip from a healthy peer would) restore it.
func c08Repair(s *simkit.Sim, h *dagHarness, fold *world.FoldResult) {
	n := h.node()
	kv := n.DagKV().Real
	h.foldEvery = 0 // the corrupted digest is there on purpose until the repair ran
	// read all stored leaves
	leaves := map[string][]byte{}
	_ = kv.ReadShelf(context.Background(), "xorBucket", func(r stoabs.Reader) error {
		return r.Iterate(func(k stoabs.Key, v []byte) error { leaves[string(k.Bytes())] = append([]byte(nil), v...); return nil }, stoabs.BytesKey{})
	})
	if len(leaves) == 0 {
		return
	}
	// page boundary: the highest clock is exactly the first clock of the second page, and that page is the corrupted one
	boundary := fold != nil && fold.High < dag.PageSize && s.D.Decide("repair-page-boundary", 4) == 3
	if boundary {
		var last *world.CTx
		for _, t := range h.corpus.Valid {
			if _, ok := h.acked[t.Ref]; ok && t.LC == fold.High {
				last = t
				break
			}
		}
		if last == nil {
			boundary = false
		}
		for boundary && last.LC < dag.PageSize {
			t := h.corpus.SignValid([]*world.CTx{last}, []byte(fmt.Sprintf("chain-%d", last.LC+1)), "foo/bar", h.corpus.Keys[0], nil)
			if err := n.State().Add(context.Background(), t.Tx, t.Payload); err != nil {
				s.Fail("C08.harness", "repair", "chain to the page boundary: %v", err)
				return
			}
			h.corpus.Valid = append(h.corpus.Valid, t)
			h.acked[t.Ref] = 0
			last = t
		}
		if boundary {
			leaves = map[string][]byte{}
			_ = kv.ReadShelf(context.Background(), "xorBucket", func(r stoabs.Reader) error {
				return r.Iterate(func(k stoabs.Key, v []byte) error { leaves[string(k.Bytes())] = append([]byte(nil), v...); return nil }, stoabs.BytesKey{})
			})
			s.Probes.Inc("repair-at-page-boundary")
		}
	}
	keys := make([]string, 0, len(leaves))
	for k := range leaves {
		keys = append(keys, k)
	}
	sortStrings(keys)
	victim := keys[s.D.Decide("repair-victim", len(keys))]
	if boundary {
		victim = keys[len(keys)-1] // keys are big-endian clocks: the last page
	}
	h.w.Stop(h.name, false)
	// corrupt while down: reopen through a new incarnation's store, before start
	corrupted := append([]byte(nil), leaves[victim]...)
	corrupted[3] ^= 0x5a
	opts := h.nodeOpts()
	prevBefore := opts.BeforeStart
	opts.BeforeStart = func(nn *world.Node) {
		_ = nn.DagKV().Real.WriteShelf(context.Background(), "xorBucket", func(w stoabs.Writer) error {
			return w.Put(stoabs.BytesKey(victim), corrupted)
		})
		prevBefore(nn)
	}
	// the state is loaded in Configure, before BeforeStart; so corrupt, then restart once more
	nn, err := h.w.StartNode(opts)
	if err != nil {
		s.Fail("C08.harness", "repair", "start: %v", err)
		return
	}
	h.w.Stop(h.name, false)
	nn, err = h.w.StartNode(h.nodeOpts())
	if err != nil {
		s.Fail("C08.harness", "repair", "start: %v", err)
		return
	}
	if _, v := world.CheckFold(nn.State(), nil); v == nil {
		// corruption not visible (should not happen): nothing to repair
		s.Info.Inc("repair-corruption-invisible")
		return
	}
	s.Probes.Inc("repair-corruption-visible")
	// what handleGossip does when a peer reports the same clock, another XOR and nothing new
	for i := 0; i < 12; i++ {
		nn.State().IncorrectStateDetected()
	}
	s.Enable(true)
	s.Advance(45 * time.Second)
	s.Enable(false)
	if _, v := world.CheckFold(nn.State(), nil); v != nil {
		s.Fail("C08.repair", v.Invariant, "after the repair procedure ran: %s", v.Msg)
		return
	}
	after := map[string][]byte{}
	_ = nn.DagKV().Real.ReadShelf(context.Background(), "xorBucket", func(r stoabs.Reader) error {
		return r.Iterate(func(k stoabs.Key, v []byte) error { after[string(k.Bytes())] = append([]byte(nil), v...); return nil }, stoabs.BytesKey{})
	})
	for k, v := range leaves {
		if string(after[k]) != string(v) {
			s.Fail("C08.repair", "pages", "stored XOR page %x differs from its value before the corruption (victim %x)", k, victim)
			return
		}
	}
	if v := reopenFold(nn); v != nil {
		s.Fail("C08.repair", v.Invariant, "repaired page not persisted: %s", v.Msg)
	}
	s.Probes.Inc("repair-restored")
}
