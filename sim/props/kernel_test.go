package props

import (
	"fmt"
	"testing"
	"testing/synctest"
	"time"

	"verifsim/simkit"
)

// TestKernel is the smoke self-test run by setup: decisions are a pure function of the seed,
// replay deciders follow the recorded log, and the scheduler interleaves two tasks the same
// way for the same seed.
func TestKernel(t *testing.T) {
	a, b := simkit.NewDecider(42), simkit.NewDecider(42)
	for i := 0; i < 100; i++ {
		l := fmt.Sprintf("l%d", i%7)
		if a.Decide(l, 10) != b.Decide(l, 10) {
			t.Fatal("decisions differ for the same seed")
		}
	}
	r := simkit.NewReplayDecider(42, a.Log())
	for i := 0; i < 100; i++ {
		l := fmt.Sprintf("l%d", i%7)
		if r.Decide(l, 10) != a.Log()[i].V {
			t.Fatal("replay decider diverges")
		}
	}
	run := func(seed uint64) string {
		out := ""
		synctest.Test(t, func(t *testing.T) {
			s := simkit.NewSim(simkit.NewDecider(seed))
			s.Enable(true)
			for i := 0; i < 3; i++ {
				i := i
				s.Go(fmt.Sprintf("t%d", i), func() {
					for k := 0; k < 3; k++ {
						s.Yield("x")
						out += fmt.Sprint(i)
						time.Sleep(time.Millisecond)
					}
				})
			}
			s.Advance(time.Second)
		})
		return out
	}
	x, y := run(7), run(7)
	if x != y || len(x) != 9 {
		t.Fatalf("scheduler not deterministic: %q vs %q", x, y)
	}
	seen := map[string]bool{}
	for sd := uint64(0); sd < 20; sd++ {
		seen[run(sd)] = true
	}
	if len(seen) < 5 {
		t.Fatalf("scheduler explores too few interleavings: %d", len(seen))
	}
}
