package props

import (
	"context"
	"encoding/json"
	"errors"
	"fmt"
	"sort"
	"strings"
	"testing"
	"time"

	ssi "github.com/nuts-foundation/go-did"
	"github.com/nuts-foundation/go-did/did"
	"github.com/nuts-foundation/go-stoabs"
	"github.com/nuts-foundation/go-stoabs/bbolt"
	"github.com/nuts-foundation/nuts-node/core"
	"github.com/nuts-foundation/nuts-node/crypto/hash"
	"github.com/nuts-foundation/nuts-node/storage"
	"github.com/nuts-foundation/nuts-node/vdr/didnuts/didstore"
	"github.com/nuts-foundation/nuts-node/vdr/resolver"
	"verifsim/seams"
	"verifsim/simkit"
	"verifsim/world"
)

// C10 — did:nuts resolution is independent of the order in which updates arrive.
//
// Didstore-only world: one generated set of accepted document events (creation, linear
// updates, 2- and 3-way forks, fork resolution, deactivation on a branch, several
// controllers/services/keys, equal clocks and signing times) is delivered to several
// independent real stores (real go-stoabs/bbolt under the KV seam) in seeded permutations, with
// duplicates, with a stop/reopen at a seeded position (crash points of the KV seam included)
// and with KV failures followed by redelivery. Oracle: the observable snapshots of all stores
// are equal, the same order applied again gives the same snapshot, and three model facts.

func TestC10(t *testing.T) {
	simkit.Main(t, simkit.Spec{Property: "C10", World: "didstore-only", Body: c10Body, MaxStepsPerRun: 50000})
}

type c10Event struct {
	Doc     did.Document
	Tx      didstore.Transaction
	Parents []int
	DID     int
	Kind    string
	Idx     int
}

type c10Sample struct {
	DIDs    int      `json:"dids"`
	Events  []string `json:"events"`
	Stores  int      `json:"stores"`
	Orders  []string `json:"arrival_orders"`
	Faulty  bool     `json:"kv_faults"`
	Reopens int      `json:"reopens"`
}

type kvProvider struct {
	dir  string
	s    *simkit.Sim
	f    *seams.FaultPoints
	inc  *seams.Incarnation
	name string
	real stoabs.KVStore
}

func (p *kvProvider) GetKVStore(name string, _ storage.Class) (stoabs.KVStore, error) {
	if p.real == nil {
		r, err := bbolt.CreateBBoltStore(p.dir+"/"+p.name+"-"+name+".db", stoabs.WithNoSync())
		if err != nil {
			return nil, err
		}
		p.real = r
	}
	return &seams.KV{Real: p.real, S: p.s, Inc: p.inc, Name: p.name + "/" + name, F: p.f, NoYield: true}, nil
}

type c10Store struct {
	name  string
	prov  *kvProvider
	store didstore.Store
	order []int
}

func (c *c10Store) open(s *simkit.Sim, f *seams.FaultPoints, dir string, gen int) error {
	if c.prov == nil {
		c.prov = &kvProvider{dir: dir, s: s, f: f, name: c.name}
	}
	c.prov.inc = &seams.Incarnation{Node: c.name, Gen: gen, S: s}
	c.store = didstore.New(c.prov)
	return c.store.(core.Configurable).Configure(core.ServerConfig{})
}

func c10Body(s *simkit.Sim, rc *simkit.RunCtx) {
	sample := &c10Sample{}
	rc.Sample = sample
	lc := world.InstallLogCapture()
	defer lc.Remove()
	f := &seams.FaultPoints{S: s, Rates: map[string]int{}}
	faulty := s.D.Decide("faultmode", 3) == 2
	if faulty {
		f.Rates[seams.KVOpErr] = 25
		f.Rates[seams.KVCommitFail] = 40
		f.Rates[seams.KVCrashBeforeCommit] = 15
		f.Rates[seams.KVCrashAfterCommit] = 25
		f.Rates[seams.KVCrashBeforeTx] = 10
		f.MaxFaults = 6
	}
	sample.Faulty = faulty

	// ---- event set ----
	ndids := 1 + s.D.Decide("dids", 3)
	keys := []interface{}{}
	for i := 0; i < 4; i++ {
		keys = append(keys, world.NewKey().Public())
	}
	var events []*c10Event
	base := time.Date(2021, 1, 1, 0, 0, 0, 0, time.UTC)
	ids := make([]did.DID, ndids)
	for d := 0; d < ndids; d++ {
		ids[d] = did.MustParseDID(fmt.Sprintf("did:nuts:sim%dX%d", d, s.D.Decide("did-suffix", 1000)))
	}
	others := []did.DID{did.MustParseDID("did:nuts:ctrlA"), did.MustParseDID("did:nuts:ctrlB"), did.MustParseDID("did:nuts:ctrlC"), did.MustParseDID("did:nuts:ctrlD")}
	refN := 0
	newRef := func() hash.SHA256Hash {
		refN++
		return hash.SHA256Sum([]byte(fmt.Sprintf("tx-%d-%d", rc.Seed, refN)))
	}
	for d := 0; d < ndids; d++ {
		id := ids[d]
		var mine []*c10Event
		nev := 2 + s.D.Decide("events", 8)
		sameTime := s.D.Decide("same-signing-time", 3) == 2
		for e := 0; e < nev; e++ {
			ev := &c10Event{DID: d, Idx: len(events)}
			var doc did.Document
			if e == 0 {
				ev.Kind = "create"
				doc = did.Document{ID: id, Context: []interface{}{did.DIDContextV1URI()}}
				vm, _ := did.NewVerificationMethod(did.DIDURL{DID: id, Fragment: "key-0"}, ssi.JsonWebKey2020, id, keys[0])
				doc.AddCapabilityInvocation(vm)
				doc.AddAssertionMethod(vm)
				ev.Tx = didstore.Transaction{Clock: uint32(1 + s.D.Decide("base-clock", 5)), Ref: newRef(), SigningTime: base, Previous: []hash.SHA256Hash{newRef()}}
			} else {
				// parents: linear (a leaf), fork (any earlier event), or resolve (all leaves)
				leaves := c10Leaves(mine)
				var parents []*c10Event
				switch k := s.D.Decide("structure", 10); {
				case k < 5:
					parents = []*c10Event{leaves[s.D.Decide("leaf", len(leaves))]}
					ev.Kind = "update"
				case k < 8:
					parents = []*c10Event{mine[s.D.Decide("fork-from", len(mine))]}
					ev.Kind = "fork"
				default:
					parents = leaves
					ev.Kind = "resolve"
				}
				var maxClock uint32
				for _, p := range parents {
					ev.Parents = append(ev.Parents, p.Idx)
					ev.Tx.Previous = append(ev.Tx.Previous, p.Tx.Ref)
					if p.Tx.Clock > maxClock {
						maxClock = p.Tx.Clock
					}
				}
				if s.D.Decide("foreign-prev", 3) == 2 {
					ev.Tx.Previous = append(ev.Tx.Previous, newRef())
				}
				ev.Tx.Clock = maxClock + 1 + uint32(s.D.Decide("clock-gap", 2))
				ev.Tx.Ref = newRef()
				if sameTime {
					ev.Tx.SigningTime = base.Add(time.Second)
				} else {
					ev.Tx.SigningTime = base.Add(time.Duration(ev.Tx.Clock)*time.Minute + time.Duration(s.D.Decide("sigt-jitter", 3))*time.Second)
				}
				// the document: the first parent's, changed
				b, _ := json.Marshal(parents[0].Doc)
				_ = json.Unmarshal(b, &doc)
				switch s.D.Decide("change", 7) {
				case 0, 1:
					doc.Service = append(doc.Service, did.Service{ID: ssi.MustParseURI(fmt.Sprintf("%s#svc-%d", id, len(events))), Type: fmt.Sprintf("type-%d", len(events)), ServiceEndpoint: fmt.Sprintf("https://e%d.sim", len(events))})
					ev.Kind += "+service"
				case 2:
					vm, _ := did.NewVerificationMethod(did.DIDURL{DID: id, Fragment: fmt.Sprintf("key-%d", len(events))}, ssi.JsonWebKey2020, id, keys[1+len(events)%3])
					doc.AddCapabilityInvocation(vm)
					ev.Kind += "+key"
				case 3, 4:
					// two or more controllers
					n := 2 + s.D.Decide("controllers", 2)
					off := s.D.Decide("controller-offset", len(others))
					doc.Controller = nil
					for i := 0; i < n; i++ {
						doc.Controller = append(doc.Controller, others[(off+i)%len(others)])
					}
					ev.Kind += fmt.Sprintf("+controllers%d", n)
				case 5:
					if len(doc.Service) > 0 {
						doc.Service = doc.Service[1:]
						ev.Kind += "-service"
					}
				case 6:
					doc.Controller = nil
					doc.CapabilityInvocation = nil
					doc.VerificationMethod = nil
					doc.AssertionMethod = nil
					ev.Kind += "+deactivate"
				}
			}
			ev.Doc = doc
			docBytes, _ := json.Marshal(doc)
			ev.Tx.PayloadHash = hash.SHA256Sum(docBytes)
			mine = append(mine, ev)
			events = append(events, ev)
			sample.Events = append(sample.Events, fmt.Sprintf("#%d did%d %s lc=%d parents=%v", ev.Idx, d, ev.Kind, ev.Tx.Clock, ev.Parents))
		}
	}
	sample.DIDs = ndids

	// ---- stores and their arrival orders ----
	nstores := 3 + s.D.Decide("stores", 3)
	sample.Stores = nstores
	var stores []*c10Store
	for i := 0; i < nstores; i++ {
		st := &c10Store{name: fmt.Sprintf("s%d", i)}
		// order: s0 causal, the others seeded permutations; s1 repeats s0's order (same order, fresh store)
		perm := make([]int, len(events))
		for k := range perm {
			perm[k] = k
		}
		if i >= 2 {
			for k := len(perm) - 1; k > 0; k-- {
				j := s.D.Decide(fmt.Sprintf("perm s%d", i), k+1)
				perm[k], perm[j] = perm[j], perm[k]
			}
		}
		if i == nstores-1 && i >= 2 {
			// reverse causal order: every update before what it succeeds
			for k := range perm {
				perm[k] = len(events) - 1 - k
			}
		}
		// duplicates
		for k := 0; k < len(events)/3; k++ {
			if s.D.Decide("dup", 2) == 1 {
				perm = append(perm, perm[s.D.Decide("dup-which", len(perm))])
			}
		}
		if i == 1 {
			perm = append([]int(nil), stores[0].order...) // exactly the same arrival order on a fresh store
		}
		st.order = perm
		sample.Orders = append(sample.Orders, fmt.Sprint(perm))
		stores = append(stores, st)
	}
	dir := rc.Dir
	gen := 0
	for _, st := range stores {
		gen++
		if err := st.open(s, f, dir, gen); err != nil {
			s.Fail("C10.harness", "open", "%v", err)
			return
		}
	}
	defer func() {
		for _, st := range stores {
			if st.prov.real != nil {
				st.prov.real.Close(context.Background())
			}
		}
	}()
	// ---- deliver ----
	f.Arm(true)
	for _, st := range stores {
		queue := append([]int(nil), st.order...)
		reopenAt := -1
		if s.D.Decide("reopen "+st.name, 2) == 1 && len(queue) > 1 {
			reopenAt = s.D.Decide("reopen-at "+st.name, len(queue))
		}
		attempts := 0
		for k := 0; k < len(queue); k++ {
			if k == reopenAt {
				gen++
				sample.Reopens++
				st.prov.inc.Kill("root")
				if err := st.open(s, f, dir, gen); err != nil {
					s.Fail("C10.harness", "reopen", "%v", err)
					return
				}
			}
			ev := events[queue[k]]
			err := st.store.Add(ev.Doc, ev.Tx)
			if st.prov.inc.Dead() {
				// the store's process stopped at a crash point: reopen from the file, deliver again
				gen++
				sample.Reopens++
				s.Probes.Inc("reopen-after-crash")
				if err := st.open(s, f, dir, gen); err != nil {
					s.Fail("C10.harness", "reopen", "%v", err)
					return
				}
				err = errors.New("crashed")
			}
			if err != nil {
				attempts++
				if attempts > 40 {
					s.Fail("C10.harness", "deliver", "event %d could not be delivered to %s: %v", ev.Idx, st.name, err)
					return
				}
				// what the notifier's retry does: the same event again, later
				queue = append(queue, queue[k])
				s.Probes.Inc("redelivery-after-failure")
			}
		}
	}
	f.Arm(false)
	// one more reopen of a seeded store before reading (loadConflictedDocuments)
	ro := stores[s.D.Decide("final-reopen", len(stores))]
	gen++
	ro.prov.inc.Kill("root")
	if err := ro.open(s, f, dir, gen); err != nil {
		s.Fail("C10.harness", "reopen", "%v", err)
		return
	}

	// ---- oracle ----
	snaps := make([]map[string]string, len(stores))
	for i, st := range stores {
		snaps[i] = c10Snapshot(st.store, ids, events)
	}
	keysOf := func(m map[string]string) []string {
		var ks []string
		for k := range m {
			ks = append(ks, k)
		}
		sort.Strings(ks)
		return ks
	}
	for i := 1; i < len(stores); i++ {
		for _, k := range keysOf(snaps[0]) {
			if snaps[0][k] != snaps[i][k] {
				inv, site := "C10.replicas", strings.SplitN(k, " ", 2)[0]
				if i == 1 {
					inv = "C10.stable" // same arrival order as store 0
				}
				s.Fail(inv, site, "stores %s (order %v) and %s (order %v) answer differently for %q:\n  %s\n  %s", stores[0].name, stores[0].order, stores[i].name, stores[i].order, k, snaps[0][k], snaps[i][k])
				return
			}
		}
	}
	// model facts
	snap := snaps[0]
	conflictedDIDs := 0
	for d, id := range ids {
		var mine []*c10Event
		deact := false
		for _, e := range events {
			if e.DID == d {
				mine = append(mine, e)
				if len(e.Doc.Controller) == 0 && len(e.Doc.CapabilityInvocation) == 0 {
					deact = true
				}
			}
		}
		leaves := c10Leaves(mine)
		var leafRefs []string
		for _, l := range leaves {
			leafRefs = append(leafRefs, l.Tx.Ref.String())
		}
		sort.Strings(leafRefs)
		latest := snap["latest-allow-deactivated "+id.String()]
		if !strings.Contains(latest, "sources="+strings.Join(leafRefs, ",")+" ") {
			s.Fail("C10.resolved", "sources", "%s: latest version should come from the leaves of its update graph %v, got %s", id, leafRefs, latest)
			return
		}
		if len(leaves) > 1 {
			conflictedDIDs++
		}
		plain := snap["latest "+id.String()]
		if deact && !strings.HasPrefix(plain, "ERR deactivated") {
			s.Fail("C10.deactivated", "active-again", "%s was deactivated by one of its updates but resolves as: %s", id, plain)
			return
		}
		if asOfLater := snap["as-of-later "+id.String()]; deact && !strings.HasPrefix(asOfLater, "ERR") {
			s.Fail("C10.deactivated", "active-again:as-of-a-later-time", "%s was deactivated by one of its updates but resolves as active when asked for its state at a time after all its updates: %s", id, asOfLater)
			return
		}
		if !deact && strings.HasPrefix(plain, "ERR") {
			s.Fail("C10.deactivated", "not-resolvable", "%s was never deactivated but does not resolve: %s", id, plain)
			return
		}
	}
	if snap["document-count"] != fmt.Sprint(ndids) {
		s.Fail("C10.counts", "documents", "document count %s, model %d", snap["document-count"], ndids)
		return
	}
	if snap["conflicted-count"] != fmt.Sprint(conflictedDIDs) {
		s.Fail("C10.counts", "conflicted", "conflicted count %s, model %d", snap["conflicted-count"], conflictedDIDs)
		return
	}
	rc.Nontrivial = len(events) > 2
	rc.Signature = "" // distinct by decision hash
}

func c10Leaves(mine []*c10Event) []*c10Event {
	isParent := map[int]bool{}
	for _, e := range mine {
		for _, p := range e.Parents {
			isParent[p] = true
		}
	}
	var leaves []*c10Event
	for _, e := range mine {
		if !isParent[e.Idx] {
			leaves = append(leaves, e)
		}
	}
	return leaves
}

func c10Describe(doc *did.Document, md *resolver.DocumentMetadata, err error) string {
	if err != nil {
		switch {
		case errors.Is(err, resolver.ErrDeactivated):
			return "ERR deactivated"
		case errors.Is(err, resolver.ErrNotFound):
			return "ERR not-found"
		}
		return "ERR " + err.Error()
	}
	b, _ := json.Marshal(doc)
	var src []string
	for _, r := range md.SourceTransactions {
		src = append(src, r.String())
	}
	sort.Strings(src)
	prev := "-"
	if md.PreviousHash != nil {
		prev = md.PreviousHash.String()
	}
	upd := "-"
	if md.Updated != nil {
		upd = md.Updated.UTC().Format(time.RFC3339)
	}
	return fmt.Sprintf("hash=%s deactivated=%v conflicted=%v sources=%s created=%s updated=%s prev=%s doc=%s", md.Hash, md.Deactivated, len(md.SourceTransactions) > 1,
		strings.Join(src, ","), md.Created.UTC().Format(time.RFC3339), upd, prev, b)
}

// c10Snapshot collects everything a resolver can ask a store about the given DIDs.
func c10Snapshot(st didstore.Store, ids []did.DID, events []*c10Event) map[string]string {
	out := map[string]string{}
	for _, id := range ids {
		out["latest "+id.String()] = c10Describe(st.Resolve(id, nil))
		out["latest-allow-deactivated "+id.String()] = c10Describe(st.Resolve(id, &resolver.ResolveMetadata{AllowDeactivated: true}))
		// as of a moment after everything that ever happened to the DID (deactivated documents not allowed)
		later := time.Date(2100, 1, 1, 0, 0, 0, 0, time.UTC)
		out["as-of-later "+id.String()] = c10Describe(st.Resolve(id, &resolver.ResolveMetadata{ResolveTime: &later}))
	}
	for _, e := range events {
		id := e.Doc.ID
		t := e.Tx.SigningTime
		h := e.Tx.PayloadHash
		r := e.Tx.Ref
		out[fmt.Sprintf("by-time %s #%d", id, e.Idx)] = c10Describe(st.Resolve(id, &resolver.ResolveMetadata{ResolveTime: &t, AllowDeactivated: true}))
		out[fmt.Sprintf("by-hash %s #%d", id, e.Idx)] = c10Describe(st.Resolve(id, &resolver.ResolveMetadata{Hash: &h, AllowDeactivated: true}))
		out[fmt.Sprintf("by-source-tx %s #%d", id, e.Idx)] = c10Describe(st.Resolve(id, &resolver.ResolveMetadata{SourceTransaction: &r, AllowDeactivated: true}))
		out[fmt.Sprintf("by-source-tx-active %s #%d", id, e.Idx)] = c10Describe(st.Resolve(id, &resolver.ResolveMetadata{SourceTransaction: &r}))
	}
	cc, err := st.ConflictedCount()
	out["conflicted-count"] = fmt.Sprint(cc)
	if err != nil {
		out["conflicted-count"] = "ERR " + err.Error()
	}
	dc, err := st.DocumentCount()
	out["document-count"] = fmt.Sprint(dc)
	if err != nil {
		out["document-count"] = "ERR " + err.Error()
	}
	var conflicted []string
	_ = st.Conflicted(func(doc did.Document, md resolver.DocumentMetadata) error {
		conflicted = append(conflicted, doc.ID.String()+"@"+md.Hash.String())
		return nil
	})
	sort.Strings(conflicted)
	out["conflicted-set"] = strings.Join(conflicted, ";")
	var all []string
	_ = st.Iterate(func(doc did.Document, md resolver.DocumentMetadata) error {
		all = append(all, doc.ID.String()+"@"+md.Hash.String())
		return nil
	})
	sort.Strings(all)
	out["iterate"] = strings.Join(all, ";")
	return out
}
