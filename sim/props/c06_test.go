package props

import (
	"context"
	"encoding/json"
	"fmt"
	"sync/atomic"
	"testing"
	"time"

	"github.com/nuts-foundation/go-did/did"
	"github.com/nuts-foundation/nuts-node/crypto"
	"github.com/nuts-foundation/nuts-node/crypto/hash"
	"github.com/nuts-foundation/nuts-node/network"
	"github.com/nuts-foundation/nuts-node/network/dag"
	"github.com/nuts-foundation/nuts-node/vdr/didnuts"
	"github.com/nuts-foundation/nuts-node/vdr/didsubject"
	"verifsim/seams"
	"verifsim/simkit"
	"verifsim/world"
)

// C06 — only valid, signed, causally complete transactions enter the DAG, exactly once.
//
// World A, one real Network engine node (with the real VDR ambassador and DID store so that
// key-id signed transactions are verified against DID documents). Submitter tasks offer
// valid corpus transactions and mutants whose defect is known by construction, concurrently,
// duplicated and out of causal order; CreateTransaction runs concurrently. Faults: KV
// operation errors and commit failures. Oracle: the admission model (by construction).

func TestC06(t *testing.T) {
	simkit.Main(t, simkit.Spec{Property: "C06", World: "A/1node", Body: c06Body, MaxStepsPerRun: 60000})
}

type c06Sample struct {
	Valid      int            `json:"valid_transactions"`
	Mutants    map[string]int `json:"mutants_offered"`
	Tasks      int            `json:"submitter_tasks"`
	Faulty     bool           `json:"faults_enabled"`
	Offers     int            `json:"offers"`
	Stored     int            `json:"stored"`
	Created    int            `json:"created_by_node"`
	KidSigned  int            `json:"kid_signed_by_did_key"`
	Resubmit   int            `json:"resubmitted"`
	Duplicates int            `json:"concurrent_duplicate_offers"`
}

func c06Body(s *simkit.Sim, rc *simkit.RunCtx) {
	h := newDagHarness(s, rc)
	defer h.finish()
	sample := &c06Sample{Mutants: map[string]int{}}
	rc.Sample = sample

	size := 5 + s.D.Decide("size", 22)
	ntasks := 2 + s.D.Decide("tasks", 3)
	faulty := s.D.Decide("faultmode", 3) == 2
	withDID := s.D.Decide("with-did", 3) != 0
	sample.Valid, sample.Tasks, sample.Faulty = size, ntasks, faulty
	f := h.w.F
	if faulty {
		f.Rates[seams.KVOpErr] = 12
		f.Rates[seams.KVCommitFail] = 30
		f.Rates[seams.KVCtxCancel] = 20 // the submitter's context ends inside the write transaction: a rejected Add like the others
		f.MaxFaults = 5
		// faults only in the DAG store's Add path: the oracle about subscriber calls needs the
		// ledger subscriber's own bookkeeping to work
		f.Filter = func(kind, site string) bool { return !containsAny(site, "_jobs") }
	}
	h.start()
	n := h.node()

	// ---- corpus ----
	root := h.corpus.Root()
	if err := n.State().Add(context.Background(), root.Tx, root.Payload); err != nil {
		s.Fail("C06.harness", "root", "root rejected: %v", err)
		return
	}
	h.acked[root.Ref] = 0
	// a did:nuts subject of this node: its creation is a transaction with an embedded key, later
	// transactions are signed by key id and verified against the DID document
	var nodeKID string
	var didTxs int
	if withDID {
		docs, _, err := n.VDR.Create(world.Ctx(), didsubject.DefaultCreationOptions())
		if err != nil || len(docs) == 0 {
			s.Fail("C06.harness", "did", "did create failed: %v", err)
			return
		}
		nodeKID = docs[0].VerificationMethod[0].ID.String()
		didTxs++
	}
	// a did:nuts document of another member (the workload signs as that member) with a key that is removed later: a
	// transaction signed with the removed key that refers to the removing update only is not signed by a key its key id
	// denotes as of the referenced transactions
	var removedKey *world.CTx
	if s.D.Decide("did-history", 3) != 0 {
		k1, k2 := newC9Key(), newC9Key()
		kid1, _ := didnuts.DIDKIDNamingFunc(k1.priv.Public())
		id := did.MustParseDIDURL(kid1).DID
		vm1, vm2 := vmFor(id, k1), vmFor(id, k2)
		kid2 := vm2.ID.String()
		sign := func(prevs []*world.CTx, payload []byte, ptype string, key *c9Key, kid string) *world.CTx {
			var refs []hash.SHA256Hash
			var lc uint32
			for _, p := range prevs {
				refs = append(refs, p.Ref)
				if p.LC+1 > lc {
					lc = p.LC + 1
				}
			}
			t, err := h.corpus.SignWith(refs, lc, payload, ptype, key.priv, kid)
			if err != nil {
				s.Fail("C06.harness", "did-history", "sign: %v", err)
				return nil
			}
			return t
		}
		add := func(t *world.CTx, what string) bool {
			if t == nil {
				return false
			}
			if err := n.State().Add(context.Background(), t.Tx, t.Payload); err != nil {
				s.Fail("C06.harness", "did-history", "%s rejected: %v", what, err)
				return false
			}
			return true
		}
		doc := didnuts.CreateDocument()
		doc.ID = id
		doc.AddCapabilityInvocation(vm1)
		doc.AddAssertionMethod(vm1)
		doc.AddAssertionMethod(vm2)
		p1, _ := json.Marshal(doc)
		tc := sign([]*world.CTx{root}, p1, didnuts.DIDDocumentType, k1, "")
		if !add(tc, "creation of a DID document with two keys") {
			return
		}
		// valid: signed with the second key while the referenced version lists it
		v1 := sign([]*world.CTx{tc}, []byte("signed-by-second-key"), "foo/bar", k2, kid2)
		if !add(v1, "transaction signed with the second key of the document it refers to") {
			return
		}
		doc2 := didnuts.CreateDocument()
		doc2.ID = id
		doc2.AddCapabilityInvocation(vm1)
		doc2.AddAssertionMethod(vm1)
		p2, _ := json.Marshal(doc2)
		tu := sign([]*world.CTx{v1, tc}, p2, didnuts.DIDDocumentType, k1, kid1)
		if !add(tu, "update that removes the second key") {
			return
		}
		if m := sign([]*world.CTx{tu}, []byte("signed-by-removed-key"), "foo/bar", k2, kid2); m != nil {
			m.Valid = false
			m.Defect = "kid-removed-key"
			removedKey = m
		}
		didTxs += 3
	}
	base := len(h.corpus.Valid)
	// the corpus continues from what the node already has (root + DID creation)
	stored0, _ := h.stored()
	var extra []*world.CTx
	for ref, tx := range stored0 {
		if ref != root.Ref {
			c := &world.CTx{Tx: tx, Raw: tx.Data(), Ref: ref, Prevs: tx.Previous(), LC: tx.Clock(), Valid: true, Idx: 9000}
			extra = append(extra, c)
			h.corpus.Valid = append(h.corpus.Valid, c)
			h.acked[ref] = 0
		}
	}
	base = len(h.corpus.Valid)
	for i := 0; i < size; i++ {
		h.corpus.Extend("gen")
	}
	work := append([]*world.CTx(nil), h.corpus.Valid[base:]...)
	byRef := map[hash.SHA256Hash]*world.CTx{}
	for _, t := range h.corpus.Valid {
		byRef[t.Ref] = t
	}
	prevsOf := func(t *world.CTx) []*world.CTx {
		var p []*world.CTx
		for _, r := range t.Prevs {
			p = append(p, byRef[r])
		}
		return p
	}
	// mutants
	var mutants []*world.CTx
	kinds := world.MutantKinds
	for _, t := range work {
		if s.D.Decide("mutate", 2) == 1 {
			kind := kinds[s.D.Decide("mutant-kind", len(kinds))]
			if m := h.corpus.Mutant(kind, t, prevsOf(t)); m != nil {
				mutants = append(mutants, m)
				sample.Mutants[kind]++
			}
		}
	}
	for _, t := range work {
		if len(t.Prevs) >= 2 && s.D.Decide("lc-lower", 2) == 1 {
			if m := h.corpus.Mutant("lc-of-lower-prev", t, prevsOf(t)); m != nil {
				mutants = append(mutants, m)
				sample.Mutants["lc-of-lower-prev"]++
			}
		}
	}
	if removedKey != nil {
		mutants = append(mutants, removedKey)
		sample.Mutants["kid-removed-key"]++
	}
	if nodeKID != "" {
		// signed by key id with a key that is not the one the DID document lists
		for i := 0; i < 2; i++ {
			t := work[s.D.Decide("kid-base", len(work))]
			if m := kidMutant(h.corpus, nodeKID, prevsOf(t)); m != nil {
				mutants = append(mutants, m)
				sample.Mutants["kid-wrong-key"]++
			}
		}
	}

	// ---- tasks ----
	lists := make([][]*world.CTx, ntasks)
	for _, t := range work {
		a := s.D.Decide("assign", ntasks)
		lists[a] = append(lists[a], t)
		if s.D.Decide("dup", 3) == 2 {
			b := (a + 1 + s.D.Decide("dup-task", ntasks-1)) % ntasks
			lists[b] = append(lists[b], t)
			sample.Duplicates++
		}
	}
	for _, m := range mutants {
		a := s.D.Decide("assign-mutant", ntasks)
		pos := 0
		if len(lists[a]) > 0 {
			pos = s.D.Decide("mutant-pos", len(lists[a])+1)
		}
		lists[a] = append(lists[a][:pos], append([]*world.CTx{m}, lists[a][pos:]...)...)
	}
	for _, l := range lists {
		for i := 0; i+1 < len(l); i++ {
			if s.D.Decide("swap", 5) == 4 {
				l[i], l[i+1] = l[i+1], l[i]
			}
		}
	}
	h.foldEvery = 1
	h.foldInvariant = "C06.no-trace"
	s.OnQuiesce = append(s.OnQuiesce, h.foldAtQuiescence)
	s.Enable(true)
	f.Arm(true)
	var running atomic.Int32
	for ti := range lists {
		ti := ti
		running.Add(1)
		s.Go(fmt.Sprintf("sub%d", ti), func() {
			defer running.Add(-1)
			queue := append([]*world.CTx(nil), lists[ti]...)
			retries := map[*world.CTx]int{}
			for len(queue) > 0 && !s.Failed() {
				t := queue[0]
				queue = queue[1:]
				o := h.offerTx(fmt.Sprintf("sub%d", ti), t)
				if o.Err != nil && t.Valid && !t.PayloadDefect && retries[t] < 4 {
					retries[t]++
					queue = append(queue, t)
				}
			}
		})
	}
	// the node creates transactions of its own meanwhile
	var created []dag.Transaction
	createFails := 0
	ncreate := s.D.Decide("creates", 4)
	if ncreate > 0 {
		running.Add(1)
		s.Go("creator", func() {
			defer running.Add(-1)
			ref, pub, err := n.Crypto.New(world.Ctx(), crypto.StringNamingFunc("creator-key"))
			if err != nil {
				return
			}
			for i := 0; i < ncreate; i++ {
				payload := []byte(fmt.Sprintf("created-%d", i))
				tpl := network.TransactionTemplate("foo/created", payload, ref.KID).WithAttachKey(pub)
				before := s.Faults.Get(seams.KVOpErr) + s.Faults.Get(seams.KVCommitFail)
				tx, err := n.Net.CreateTransaction(world.Ctx(), tpl)
				after := s.Faults.Get(seams.KVOpErr) + s.Faults.Get(seams.KVCommitFail)
				if err != nil {
					createFails++
					if before == after {
						s.Fail("C06.accept", "CreateTransaction", "CreateTransaction failed without any injected fault: %v", err)
					}
					continue
				}
				created = append(created, tx)
			}
			if nodeKID != "" {
				// an update of the node's own DID: signed by key id
				_, err := n.VDR.CreateService(world.Ctx(), subjectOf(n), did.Service{Type: "sim-svc", ServiceEndpoint: "https://x.sim"})
				if err == nil {
					sample.KidSigned++
				}
			}
		})
	}
	s.RunUntil(func() bool { return running.Load() == 0 }, 30*time.Minute, time.Second)
	f.Arm(false)
	s.Settle()
	s.Advance(3 * time.Minute) // notifier retries after injected failures
	sample.Offers = len(h.offers)
	sample.Created = len(created)
	if s.Failed() {
		return
	}
	faultsFired := s.Faults.Get(seams.KVOpErr) + s.Faults.Get(seams.KVCommitFail)

	// ---- oracle over the recorded offers ----
	for _, o := range h.offers {
		t := o.T
		switch {
		case !t.Valid || t.PayloadDefect:
			if o.Err == nil && !(t.Root && false) {
				s.Fail("C06.valid-only", "Add:"+t.Defect, "Add returned nil for a transaction with defect %q (%s)", t.Defect, t)
				return
			}
		default:
			if o.Err != nil && o.FaultsAt == 0 {
				missing := false
				for _, p := range t.Prevs {
					if st, ok := h.acked[p]; !ok || st > o.Start {
						missing = true
					}
				}
				if !missing {
					s.Fail("C06.accept", "Add", "valid transaction %s with all prevs admitted before the call was rejected: %v", t, o.Err)
					return
				}
			}
		}
	}

	// ---- final state ----
	stored, err := h.stored()
	if err != nil {
		s.Fail("C06.harness", "list", "%v", err)
		return
	}
	sample.Stored = len(stored)
	validRefs := map[hash.SHA256Hash]bool{}
	for _, t := range h.corpus.Valid {
		validRefs[t.Ref] = true
	}
	for _, tx := range created {
		validRefs[tx.Ref()] = true
	}
	mutantRefs := map[hash.SHA256Hash]*world.CTx{}
	for _, m := range mutants {
		mutantRefs[m.Ref] = m
	}
	roots := 0
	for ref, tx := range stored {
		if m, bad := mutantRefs[ref]; bad {
			s.Fail("C06.valid-only", "stored:"+m.Defect, "transaction with defect %q is in the DAG (%s)", m.Defect, m)
			return
		}
		if len(tx.Previous()) == 0 {
			roots++
		}
		// causal closure and clock rule, judged on the stored set itself
		maxc := -1
		for _, p := range tx.Previous() {
			ptx, ok := stored[p]
			if !ok {
				s.Fail("C06.causal", "closure", "stored transaction %s refers to %s which is not stored", ref, p)
				return
			}
			if int(ptx.Clock()) > maxc {
				maxc = int(ptx.Clock())
			}
		}
		if int(tx.Clock()) != maxc+1 {
			s.Fail("C06.causal", "clock", "stored transaction %s has clock %d, its prevs imply %d", ref, tx.Clock(), maxc+1)
			return
		}
		if !validRefs[ref] {
			// created by the node itself through VDR (DID document transactions): valid by the node's own construction
			if tx.PayloadType() != "application/did+json" {
				s.Fail("C06.valid-only", "stored", "stored transaction %s was never offered", ref)
				return
			}
		}
	}
	if roots != 1 {
		s.Fail("C06.causal", "root", "%d root transactions stored", roots)
		return
	}
	for ref := range h.acked {
		if _, ok := stored[ref]; !ok {
			s.Fail("C06.accept", "durable", "transaction %s was acknowledged by Add but is not stored", ref)
			return
		}
	}
	// rejected transactions leave no trace
	st := n.State()
	ctx := context.Background()
	storedPayload := map[hash.SHA256Hash]bool{}
	for _, tx := range stored {
		storedPayload[tx.PayloadHash()] = true
	}
	for _, o := range h.offers {
		t := o.T
		if _, ok := stored[t.Ref]; ok {
			continue
		}
		if t.Tx != nil {
			if p, _ := st.IsPresent(ctx, t.Ref); p {
				s.Fail("C06.no-trace", "present", "rejected transaction %s reported present", t)
				return
			}
		}
		if t.Payload != nil {
			ph := hash.SHA256Sum(t.Payload)
			if pp, _ := st.IsPayloadPresent(ctx, ph); pp && !storedPayload[ph] {
				s.Fail("C06.no-trace", "payload:"+t.Defect, "payload of rejected transaction %s was stored", t)
				return
			}
			if t.Tx != nil && !storedPayload[t.Tx.PayloadHash()] {
				if pp, _ := st.IsPayloadPresent(ctx, t.Tx.PayloadHash()); pp {
					s.Fail("C06.no-trace", "payload:"+t.Defect, "a payload was stored under the declared hash of rejected transaction %s", t)
					return
				}
			}
		}
	}
	for _, sub := range []string{"led", "nats", "vdr", "private"} {
		for ref := range jobRefs(n.DagKV(), sub) {
			if _, ok := stored[ref]; !ok {
				s.Fail("C06.no-trace", "jobs:"+sub, "subscriber %q has a queued job for %s which is not in the DAG", sub, ref)
				return
			}
		}
	}
	if _, v := world.CheckFold(st, nil); v != nil {
		s.Fail("C06.no-trace", v.Invariant, "digests/indexes differ from the stored set after rejections: %s", v.Msg)
		return
	}
	// stored payloads hash to the declared hash
	for ref, tx := range stored {
		if pl, err := st.ReadPayload(ctx, tx.PayloadHash()); err == nil && pl != nil {
			if !hash.SHA256Sum(pl).Equals(tx.PayloadHash()) {
				s.Fail("C06.payload", "stored", "payload stored for %s does not hash to its payload hash", ref)
				return
			}
		}
	}
	// exactly once: the always-succeeding subscriber saw every admitted transaction once and nothing else
	for ref := range stored {
		c := h.led.count("led", ref)
		if c == 0 {
			s.Fail("C06.once", "missing", "admitted transaction %s was never delivered to the subscriber (3 virtual minutes after the last offer)", ref)
			return
		}
		if c > 1 && faultsFired == 0 {
			s.Fail("C06.once", "duplicate", "admitted transaction %s was delivered %d times without any fault", ref, c)
			return
		}
	}
	h.led.mu.Lock()
	for ref, c := range h.led.calls["led"] {
		if _, ok := stored[ref]; !ok && c > 0 {
			h.led.mu.Unlock()
			s.Fail("C06.once", "not-admitted", "subscriber was notified %d time(s) of %s which is not in the DAG", c, ref)
			return
		}
	}
	h.led.mu.Unlock()
	// resubmission is silent
	before := map[hash.SHA256Hash]int{}
	for ref := range stored {
		before[ref] = h.led.count("led", ref)
	}
	var resub []*world.CTx
	for _, t := range h.corpus.Valid {
		if _, ok := stored[t.Ref]; ok && t.Tx != nil && s.D.Decide("resubmit", 3) == 0 {
			resub = append(resub, t)
		}
	}
	running.Add(1)
	s.Go("resubmit", func() {
		defer running.Add(-1)
		for _, t := range resub {
			if err := st.Add(ctx, t.Tx, t.Payload); err != nil {
				s.Fail("C06.once", "resubmit-error", "re-submitting present transaction %s failed: %v", t, err)
			}
		}
	})
	s.RunUntil(func() bool { return running.Load() == 0 }, 5*time.Minute, time.Second)
	s.Advance(30 * time.Second)
	sample.Resubmit = len(resub)
	if s.Failed() {
		return
	}
	stored2, _ := h.stored()
	if len(stored2) != len(stored) {
		s.Fail("C06.once", "resubmit-count", "re-submission changed the number of stored transactions %d -> %d", len(stored), len(stored2))
		return
	}
	for ref, c := range before {
		if c2 := h.led.count("led", ref); c2 != c {
			s.Fail("C06.once", "resubmit-notify", "re-submitting present transaction %s notified the subscriber again (%d -> %d)", ref, c, c2)
			return
		}
	}
	if _, v := world.CheckFold(st, nil); v != nil {
		s.Fail("C06.once", v.Invariant, "re-submission changed digests/indexes: %s", v.Msg)
		return
	}
	rc.Nontrivial = len(h.offers) > 0 && (s.NonFIFO > 0 || faultsFired > 0)
	_ = didTxs
	_ = extra
}

func containsAny(s string, subs ...string) bool {
	for _, x := range subs {
		if len(x) > 0 && len(s) >= len(x) {
			for i := 0; i+len(x) <= len(s); i++ {
				if s[i:i+len(x)] == x {
					return true
				}
			}
		}
	}
	return false
}

func subjectOf(n *world.Node) string {
	subs, err := n.VDR.List(world.Ctx())
	if err != nil {
		return ""
	}
	for k := range subs {
		return k
	}
	return ""
}

// kidMutant builds a transaction that names the node's real key id but is signed by another key.
func kidMutant(c *world.Corpus, kid string, prevs []*world.CTx) *world.CTx {
	return c.MutantKid(kid, prevs)
}
