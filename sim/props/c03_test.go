package props

import (
	"bytes"
	"context"
	"crypto/ecdsa"
	"crypto/ed25519"
	"crypto/elliptic"
	"crypto/rand"
	"crypto/rsa"
	"crypto/x509"

	"encoding/base64"
	"encoding/hex"
	"encoding/json"
	"encoding/pem"
	"fmt"
	nutscrypto "github.com/nuts-foundation/nuts-node/crypto"
	"os"
	"path/filepath"
	"regexp"
	"sort"
	"strings"
	"sync"
	"testing"
	"time"

	"github.com/lestrrat-go/jwx/v2/jwa"
	"github.com/lestrrat-go/jwx/v2/jwk"
	"github.com/lestrrat-go/jwx/v2/jws"
	"github.com/nuts-foundation/go-did/did"
	"github.com/nuts-foundation/nuts-node/audit"
	"github.com/nuts-foundation/nuts-node/vdr/didsubject"
	"verifsim/seams"
	"verifsim/simkit"
	"verifsim/world"
)

// C03 — private keys never leave the key store.
//
// A canary monitor over a composite workload on two web nodes (did:web and did:nuts subjects,
// issuing, wallet, presentations, bearer and DPoP tokens, DPoP proofs, introspection, the signing
// API with caller-supplied headers incl. a jwk header, JWE encryption) run under injected HTTP
// and SQL faults, because error paths are where a key would most plausibly be logged. Every
// private key the nodes created (read from the key store's own files at the end) is encoded in
// the usual ways; the encodings are searched in every monitored channel: every envelope of the
// simulated peer-to-peer transport, every request and response of the simulated HTTP transport,
// everything the API returned to the workload, every log and audit line, every SQL row, every KV
// value, every file outside the key store's directory. Also: a signature requested for key id K
// verifies with exactly the key published for K, and path-like key names are refused.

func TestC03(t *testing.T) {
	simkit.Main(t, simkit.Spec{Property: "C03", World: "B/2nodes", Body: c03Body, MaxStepsPerRun: 60000})
}

type c03Sample struct {
	Keys       int            `json:"private_keys_registered"`
	Needles    int            `json:"encodings_searched"`
	Channels   map[string]int `json:"bytes_scanned_per_channel"`
	FaultKinds []string       `json:"fault_kinds_enabled,omitempty"`
	Ops        []string       `json:"operations"`
}

var b64Run = regexp.MustCompile(`[A-Za-z0-9_\-+/]{24,}`)

type needle struct {
	what string
	b    []byte
}

func keyNeedles(name string, key interface{}) []needle {
	var out []needle
	add := func(what string, b []byte) {
		if len(b) >= 16 {
			out = append(out, needle{name + ":" + what, b})
		}
	}
	encs := func(what string, raw []byte) {
		add(what+"/hex", []byte(hex.EncodeToString(raw)))
		add(what+"/HEX", []byte(strings.ToUpper(hex.EncodeToString(raw))))
		add(what+"/base64", []byte(strings.TrimRight(base64.StdEncoding.EncodeToString(raw), "=")))
		add(what+"/base64url", []byte(base64.RawURLEncoding.EncodeToString(raw)))
		add(what+"/raw", raw)
	}
	der, err := x509.MarshalPKCS8PrivateKey(key)
	if err == nil {
		b64 := base64.StdEncoding.EncodeToString(der)
		// PEM bodies are wrapped at 64 characters: search for the first lines
		for i := 0; i+64 <= len(b64) && i < 256; i += 64 {
			if i >= 64 { // the very first line is mostly the algorithm header, shared by all keys
				add(fmt.Sprintf("pkcs8-pem-line%d", i/64), []byte(b64[i:i+64]))
			}
		}
		add("pkcs8/hex-tail", []byte(hex.EncodeToString(der[len(der)/2:])))
	}
	switch k := key.(type) {
	case *ecdsa.PrivateKey:
		d := k.D.FillBytes(make([]byte, (k.Curve.Params().BitSize+7)/8))
		encs("scalar-d", d)
		add("scalar-d/decimal", []byte(k.D.String()))
		if sec1, err := x509.MarshalECPrivateKey(k); err == nil {
			add("sec1/base64", []byte(base64.StdEncoding.EncodeToString(sec1)[8:56]))
		}
	case *rsa.PrivateKey:
		encs("rsa-d", k.D.Bytes())
		add("rsa-d/decimal", []byte(k.D.String()))
		for i, p := range k.Primes {
			encs(fmt.Sprintf("rsa-prime%d", i), p.Bytes())
			add(fmt.Sprintf("rsa-prime%d/decimal", i), []byte(p.String()))
		}
	case ed25519.PrivateKey:
		encs("ed25519-seed", k.Seed())
		// Go's %v of a byte slice: "[1 2 3 ...]"
		add("ed25519-seed/go-%v", []byte(strings.Trim(fmt.Sprint([]byte(k.Seed())), "[]")))
	}
	return out
}

func c03Body(s *simkit.Sim, rc *simkit.RunCtx) {
	sample := &c03Sample{Channels: map[string]int{}}
	rc.Sample = sample
	auditLog := audit.CaptureAuditLogs(rc.T)
	w := world.New(s, rc)
	defer w.Shutdown()
	w.RecordAPI = true
	w.LogHook.Keep = true
	w.HTTP.KeepBodies = true
	var wires [][]byte
	w.P2P.Monitor = func(from, to *seams.Endpoint, conn *seams.Conn, envelope interface{}, wire []byte) {
		if len(wires) < 4000 {
			wires = append(wires, wire)
		}
	}
	debugEnv := map[string]string{"NUTS_VERBOSITY": "debug"}
	methods := []string{"web", "web,nuts"}[s.D.Decide("methods", 2)]
	a, err := w.StartNode(world.NodeOpts{Name: "nodea", DIDMethods: methods, Web: true, SimSQL: true, SimSession: true, Env: debugEnv})
	if err != nil {
		s.Fail("C03.harness", "start", "%v", err)
		return
	}
	// keys that an operator imported (or that an older version left behind): RSA and Ed25519 files in the key store's
	// directory are picked up when the node starts
	legacyDir := filepath.Join(rc.Dir, "nodeb", "crypto")
	_ = os.MkdirAll(legacyDir, 0o700)
	_, edLegacy, _ := ed25519.GenerateKey(rand.Reader)
	for name, key := range map[string]interface{}{"legacy-rsa": c03LegacyRSAKey(), "legacy-ed25519": edLegacy} {
		if der, err := x509.MarshalPKCS8PrivateKey(key); err == nil {
			_ = os.WriteFile(filepath.Join(legacyDir, name+"_private.pem"), pem.EncodeToMemory(&pem.Block{Type: "PRIVATE KEY", Bytes: der}), 0o600)
		}
	}
	b, err := w.StartNode(world.NodeOpts{Name: "nodeb", DIDMethods: methods, Web: true, SimSQL: true, SimSession: true, Env: debugEnv})
	if err != nil {
		s.Fail("C03.harness", "start", "%v", err)
		return
	}
	if strings.Contains(methods, "nuts") {
		// a shared root and a link, so that did:nuts documents travel
		c := world.NewCorpus("c03", func(string, int) int { return 0 })
		root := c.Root()
		for _, n := range []*world.Node{a, b} {
			_ = n.State().Add(context.Background(), root.Tx, root.Payload)
		}
		w.P2P.Connect("nodea", "nodeb", nil)
	}
	for _, n := range []*world.Node{a, b} {
		if n.Session != nil {
			n.Session.KeepWrites = true
		}
	}
	s.Enable(true)
	// faults: error paths
	f := w.F
	if s.D.Decide("faultmode", 3) != 0 {
		for _, k := range []struct {
			k    string
			rate int
		}{{seams.HTTPReqLost, 60}, {seams.HTTPRespLost, 60}, {seams.HTTP5xx, 60}, {seams.SQLStmtErr, 6}, {seams.SQLCommitFail, 15}, {seams.KVOpErr, 10}} {
			if s.D.Decide("enable "+k.k, 2) == 1 {
				f.Rates[k.k] = k.rate
				sample.FaultKinds = append(sample.FaultKinds, k.k)
			}
		}
		f.MaxFaults = 8
	}

	op := func(name string, fn func()) {
		sample.Ops = append(sample.Ops, name)
		s.Do(name, 3*time.Minute, fn)
	}
	var didA, didB []string
	op("subjects", func() {
		didA, _ = a.CreateSubject("vendorA")
		didB, _ = b.CreateSubject("vendorB")
	})
	if len(didA) == 0 || len(didB) == 0 {
		s.Fail("C03.harness", "subjects", "no subjects")
		return
	}
	f.Arm(true)
	webDID := func(ds []string) string {
		for _, d := range ds {
			if strings.HasPrefix(d, "did:web:") {
				return d
			}
		}
		return ds[0]
	}
	dB := webDID(didB)
	var cred []byte
	op("issue+wallet", func() {
		var err error
		cred, _, err = b.IssueOrgCredential(dB, dB, "Caresoft B.V.", "Caretown", true, []string{"", "jwt_vc"}[s.D.Decide("fmt", 2)])
		if err == nil {
			_ = b.LoadIntoWallet("vendorB", cred)
		}
	})
	var tr world.TokenResult
	op("token", func() {
		tr = b.RequestServiceToken("vendorB", "https://nodea.sim/oauth2/vendorA", "simple", []string{"", "Bearer"}[s.D.Decide("tt", 2)], true)
	})
	if tr.AccessToken != "" {
		op("introspect", func() { a.Introspect(tr.AccessToken) })
		if tr.DPoPKid != "" {
			op("dpop", func() {
				b.Call("POST", "/internal/auth/v2/dpop/"+strings.ReplaceAll(tr.DPoPKid, "#", "%23"), map[string]string{"htm": "GET", "htu": "https://nodea.sim/resource", "token": tr.AccessToken})
			})
		}
	}
	if cred != nil {
		op("presentation", func() {
			b.Call("POST", "/internal/vcr/v2/holder/vp", map[string]interface{}{"signerDID": dB, "verifiableCredentials": []json.RawMessage{cred}})
		})
	}
	// ---- the signing API with caller-supplied headers; signature for kid K verifies with the key published for K ----
	var kid string
	var pubDoc *did.Document
	if id, err := did.ParseDID(dB); err == nil {
		if doc, _, err := b.VDR.Resolve(*id, nil); err == nil && len(doc.VerificationMethod) > 0 {
			pubDoc = doc
			kid = doc.VerificationMethod[0].ID.String()
		}
	}
	if kid != "" {
		pubJWK := map[string]interface{}{"kty": "EC", "crv": "P-256", "x": "f83OJ3D2xF1Bg8vub9tLe1gHMzV76e8Tus9uPHvRVEU", "y": "x_FEzRu9m36HLN_tue659LNpXW6pCyStikYjKIWI5a0"}
		// a private key of a seeded kind for the jwk header: EC, OKP (Ed25519), RSA
		var privRaw interface{}
		privJWK := map[string]interface{}{"kty": "EC", "crv": "P-256", "x": "f83OJ3D2xF1Bg8vub9tLe1gHMzV76e8Tus9uPHvRVEU", "y": "x_FEzRu9m36HLN_tue659LNpXW6pCyStikYjKIWI5a0", "d": "jpsQnnGQmL-YBIffH1136cspYG6-0iY7X1fCE9-E9LI"}
		privMarker := `"d"`
		switch s.D.Decide("private-jwk-kind", 4) {
		case 1:
			_, edKey, _ := ed25519.GenerateKey(rand.Reader)
			privRaw = edKey
		case 2:
			privRaw = c03RSAKey()
		case 3:
			ecKey, _ := ecdsa.GenerateKey(elliptic.P384(), rand.Reader)
			privRaw = ecKey
		default:
			ecKey, _ := ecdsa.GenerateKey(elliptic.P256(), rand.Reader)
			privRaw = ecKey
		}
		privJWK = jwkMap(privRaw)
		hostile := map[string]interface{}{"x": "y", "typ": "evil", "cty": "a/b"}
		switch s.D.Decide("jws-headers", 4) {
		case 1:
			hostile["jwk"] = pubJWK
		case 2:
			hostile["b64"] = true
			hostile["x5c"] = []string{"AAAA"}
		case 3:
			// a kid of the caller's choosing: the signature is still made with, and names, the requested key
			hostile["kid"] = []string{"legacy-rsa", "did:web:someone-else.sim#key-1", kid + "x"}[s.D.Decide("other-kid", 3)]
		}
		var jwsOut []byte
		op("sign_jws", func() {
			_, jwsOut = b.Call("POST", "/internal/crypto/v1/sign_jws", map[string]interface{}{"kid": kid, "headers": hostile, "payload": base64.StdEncoding.EncodeToString([]byte("hello")), "detached": false})
		})
		// a private key in the jwk header is never embedded in what the node signs
		op("sign_jws-private-jwk", func() {
			code, out := b.Call("POST", "/internal/crypto/v1/sign_jws", map[string]interface{}{"kid": kid, "headers": map[string]interface{}{"jwk": privJWK}, "payload": base64.StdEncoding.EncodeToString([]byte("hello")), "detached": s.D.Decide("detached", 2) == 1})
			token := strings.TrimSpace(strings.Trim(string(out), "\"\n"))
			if code == 200 && strings.Count(token, ".") == 2 {
				if hdr, err := base64.RawURLEncoding.DecodeString(strings.SplitN(token, ".", 2)[0]); err == nil && bytes.Contains(hdr, []byte(privMarker)) {
					s.Fail("C03.jwk-header", "sign_jws", "the node signed a JWS whose jwk header embeds a private key: %s", hdr)
				}
			} else {
				s.Probes.Inc("private-jwk-header-refused")
			}
		})
		if s.Failed() {
			return
		}
		// the same at Go level (internal callers pass a jwk.Key object in the header map)
		op("SignJWS-private-jwk-object", func() {
			keyObj, err := jwk.FromRaw(privRaw)
			if err != nil {
				return
			}
			ctx := audit.Context(context.Background(), "sim", "Sim", "op")
			token, err := b.Crypto.SignJWS(ctx, []byte("hello"), map[string]interface{}{"jwk": keyObj}, kid, s.D.Decide("detached-go", 2) == 1)
			if err == nil && strings.Count(token, ".") == 2 {
				if hdr, derr := base64.RawURLEncoding.DecodeString(strings.SplitN(token, ".", 2)[0]); derr == nil {
					var h struct {
						JWK map[string]interface{} `json:"jwk"`
					}
					_ = json.Unmarshal(hdr, &h)
					for _, member := range []string{"d", "p", "q", "dp", "dq", "qi", "k"} {
						if _, has := h.JWK[member]; has {
							s.Fail("C03.jwk-header", "SignJWS", "the key store signed a JWS whose jwk header embeds the private member %q of a %T: %s", member, privRaw, hdr)
							return
						}
					}
				}
			} else {
				s.Probes.Inc("private-jwk-object-refused")
			}
		})
		if s.Failed() {
			return
		}
		// a DPoP proof and a did:jwk that embed a private key are refused
		op("private-jwk-inputs", func() {
			pj, _ := json.Marshal(privJWK)
			code, out := b.Call("GET", "/internal/vdr/v2/did/did:jwk:"+base64.RawURLEncoding.EncodeToString(pj), nil)
			if code == 200 {
				s.Fail("C03.jwk-header", "did:jwk", "a did:jwk embedding a private key was resolved: %s", out)
			}
		})
		if s.Failed() {
			return
		}
		var jwtOut []byte
		op("sign_jwt", func() {
			_, jwtOut = b.Call("POST", "/internal/crypto/v1/sign_jwt", map[string]interface{}{"kid": kid, "claims": map[string]interface{}{"iss": "x", "sub": "y"}})
		})
		pub, perr := pubDoc.VerificationMethod[0].PublicKey()
		for name, out := range map[string][]byte{"sign_jws": jwsOut, "sign_jwt": jwtOut} {
			token := strings.TrimSpace(strings.Trim(string(out), "\"\n"))
			if strings.Count(token, ".") != 2 || perr != nil {
				continue
			}
			if _, err := jws.Verify([]byte(token), jws.WithKey(jwa.ES256, pub)); err != nil {
				s.Fail("C03.kid", name, "the %s signature requested for %s does not verify with the key published for it: %v", name, kid, err)
				return
			}
			if hb, err := base64.RawURLEncoding.DecodeString(strings.SplitN(token, ".", 2)[0]); err == nil {
				var h struct {
					Kid *string `json:"kid"`
				}
				if json.Unmarshal(hb, &h) == nil && h.Kid != nil && *h.Kid != kid {
					s.Fail("C03.kid", name+":names-another-key", "the %s signature requested for %s names key id %q in its header", name, kid, *h.Kid)
					return
				}
			}
			s.Probes.Inc("signature-verified-with-published-key")
		}
	}
	// ---- a key id that is linked to another key afterwards: what is published for it and what signs for it change together ----
	if !s.Failed() && s.D.Decide("relink", 2) == 1 {
		op("relink", func() {
			ctx := audit.Context(context.Background(), "sim", "Sim", "op")
			kidR := fmt.Sprintf("relinked-key-%d", s.D.Decide("relink-name", 1000))
			kid2 := kidR + "-successor"
			_, pub1, err1 := b.Crypto.New(ctx, nutscrypto.StringNamingFunc(kidR))
			ref2, _, err2 := b.Crypto.New(ctx, nutscrypto.StringNamingFunc(kid2))
			if err1 != nil || err2 != nil || ref2 == nil {
				s.Info.Inc("relink-skipped")
				return
			}
			verifyWith := func(stage string, pub interface{}) bool {
				for name, sign := range map[string]func() (string, error){
					"SignJWT": func() (string, error) { return b.Crypto.SignJWT(ctx, map[string]interface{}{"iss": "x"}, nil, kidR) },
					"SignJWS": func() (string, error) {
						return b.Crypto.SignJWS(ctx, []byte("hello"), map[string]interface{}{"typ": "x"}, kidR, false)
					},
				} {
					token, err := sign()
					if err != nil {
						continue
					}
					if _, err := jws.Verify([]byte(token), jws.WithKey(jwa.ES256, pub)); err != nil {
						s.Fail("C03.kid", "relinked:"+name, "%s: the %s signature requested for %s does not verify with the key the key store publishes for it: %v", stage, name, kidR, err)
						return false
					}
				}
				return true
			}
			if !verifyWith("before the key id was linked to another key", pub1) {
				return
			}
			if err := b.Crypto.Link(ctx, kidR, ref2.KeyName, ref2.Version); err != nil {
				s.Info.Inc("relink-refused")
				return
			}
			pubNow, err := b.Crypto.Resolve(ctx, kidR)
			if err != nil {
				return
			}
			if verifyWith("after the key id was linked to another key", pubNow) {
				s.Probes.Inc("signature-verified-after-relink")
			}
		})
	}
	// ---- imported non-EC keys: whatever is asked of them, their material stays inside ----
	var goErrors []string
	noteErr := func(err error) {
		if err != nil {
			goErrors = append(goErrors, err.Error())
		}
	}
	for _, lk := range []string{"legacy-rsa", "legacy-ed25519"} {
		op("legacy-key "+lk, func() {
			ctx := audit.Context(context.Background(), "sim", "Sim", "op")
			if ok, _ := b.Crypto.Exists(ctx, lk); ok {
				s.Probes.Inc("imported-non-ec-key-in-store")
			}
			_, err := b.Crypto.Decrypt(ctx, lk, []byte("not a ciphertext"))
			noteErr(err)
			_, err = b.Crypto.SignJWT(ctx, map[string]interface{}{"a": "b"}, nil, lk)
			noteErr(err)
			_, err = b.Crypto.SignJWS(ctx, []byte("x"), map[string]interface{}{"typ": "x"}, lk, false)
			noteErr(err)
			hdr := base64.RawURLEncoding.EncodeToString([]byte(`{"alg":"ECDH-ES+A256KW","enc":"A256GCM","kid":"` + lk + `","epk":{"kty":"EC","crv":"P-256","x":"f83OJ3D2xF1Bg8vub9tLe1gHMzV76e8Tus9uPHvRVEU","y":"x_FEzRu9m36HLN_tue659LNpXW6pCyStikYjKIWI5a0"}}`))
			b.Call("POST", "/internal/crypto/v1/decrypt_jwe", map[string]interface{}{"message": hdr + ".AAAAAAAAAAAAAAAAAAAAAAAAAAAAAAAAAAAAAAAAAAAAAAAAAAAAAA.AAAAAAAAAAAAAAAA.AAAA.AAAAAAAAAAAAAAAAAAAAAA"})
			_, _, err = b.Crypto.DecryptJWE(ctx, hdr+".AAAAAAAAAAAAAAAAAAAAAAAAAAAAAAAAAAAAAAAAAAAAAAAAAAAAAA.AAAAAAAAAAAAAAAA.AAAA.AAAAAAAAAAAAAAAAAAAAAA")
			noteErr(err)
		})
	}
	// ---- key names that address storage outside the key store's namespace ----
	// a real key file just outside the key store's directory: a name that reaches it must not work
	escapeFile := filepath.Join(b.Dir, "escape_private.pem")
	if m, _ := filepath.Glob(filepath.Join(b.Dir, "crypto", "*_private.pem")); len(m) > 0 {
		data, _ := os.ReadFile(m[0])
		_ = os.WriteFile(escapeFile, data, 0o600)
	}
	before := listFiles(rc.Dir)
	for i, name := range []string{"../escape", "..%2Fescape", b.Dir + "/escape", "x/../../escape", "sub/dir/key", "..\\escape", "%2e%2e%2fescape", "./../escape"} {
		op("path-like-key-name", func() {
			ctx := audit.Context(context.Background(), "sim", "Sim", "op")
			kidx := fmt.Sprintf("did:web:evil.sim#key%d", i)
			_ = b.Crypto.Link(ctx, kidx, name, "1")
			if _, err := b.Crypto.SignJWT(ctx, map[string]interface{}{"a": "b"}, nil, kidx); err == nil {
				s.Fail("C03.namespace", "signed", "a signature was produced for a key linked to the path-like name %q", name)
			}
			_, _ = b.Crypto.Exists(ctx, kidx)
		})
		if s.Failed() {
			return
		}
	}
	// key ids nobody created: the key store must not fall back on another key
	if kid != "" {
		ctx := audit.Context(context.Background(), "sim", "Sim", "op")
		for _, k := range []string{"", " ", "%", "_", kid + " ", " " + kid, kid[:len(kid)-1], strings.ToUpper(kid), kid + "%", strings.SplitN(kid, "#", 2)[0], "#" + strings.SplitN(kid+"#", "#", 3)[1]} {
			if k == kid {
				continue
			}
			op("unknown-kid", func() {
				if tok, err := b.Crypto.SignJWT(ctx, map[string]interface{}{"a": "b"}, nil, k); err == nil {
					s.Fail("C03.kid", "unknown-kid:jwt", "SignJWT produced a token for key id %q, which nobody created: %s", k, tok)
					return
				}
				if tok, err := b.Crypto.SignJWS(ctx, []byte("x"), map[string]interface{}{"typ": "x"}, k, false); err == nil {
					s.Fail("C03.kid", "unknown-kid:jws", "SignJWS produced a signature for key id %q, which nobody created: %s", k, tok)
					return
				}
				if ok, _ := b.Crypto.Exists(ctx, k); ok {
					s.Fail("C03.kid", "unknown-kid:exists", "the key store says a private key exists for key id %q, which nobody created", k)
					return
				}
				if _, err := b.Crypto.Resolve(ctx, k); err == nil {
					s.Fail("C03.kid", "unknown-kid:resolve", "the key store resolves a public key for key id %q, which nobody created", k)
				}
			})
			if s.Failed() {
				return
			}
		}
		s.Probes.Inc("unknown-key-ids-refused")
	}
	// key ids that are not linked to any key, path-like, through the API
	for _, k := range []string{"../escape", "..%2Fescape", kid + "/../x", "did:web:nodeb.sim#../../escape"} {
		op("path-like-kid", func() {
			code, out := b.Call("POST", "/internal/crypto/v1/sign_jwt", map[string]interface{}{"kid": k, "claims": map[string]interface{}{"iss": "x"}})
			if code == 200 {
				s.Fail("C03.namespace", "signed-api", "sign_jwt produced a token for the unknown path-like key id %q: %s", k, out)
			}
		})
		if s.Failed() {
			return
		}
	}
	os.Remove(escapeFile)
	after := listFiles(rc.Dir)
	for p := range after {
		if !before[p] && !strings.Contains(p, "/crypto/") && strings.HasSuffix(p, ".pem") {
			s.Fail("C03.namespace", "file-outside", "a key file appeared outside the key store's directory: %s", p)
			return
		}
	}
	// the key store directory holds plain files only, named after generated key names
	for _, n := range []*world.Node{a, b} {
		entries, _ := os.ReadDir(filepath.Join(n.Dir, "crypto"))
		for _, e := range entries {
			if e.IsDir() || strings.ContainsAny(e.Name(), "/\\%") || strings.HasPrefix(e.Name(), ".") {
				s.Fail("C03.namespace", "key-dir", "unexpected entry in the key store directory of %s: %q", n.Name, e.Name())
				return
			}
		}
	}
	// did:nuts traffic (DID documents as DAG transactions, gossip)
	if strings.Contains(methods, "nuts") {
		op("nuts-service", func() {
			_, _ = a.VDR.CreateService(world.Ctx(), "vendorA", did.Service{Type: "sim", ServiceEndpoint: "https://x.sim"})
			_, _, _ = a.VDR.Create(world.Ctx(), didsubject.DefaultCreationOptions())
		})
		s.Advance(20 * time.Second)
	}
	f.Arm(false)
	s.Advance(5 * time.Second)
	s.Enable(false)

	// ---- the canary ----
	var needles []needle
	for _, n := range []*world.Node{a, b} {
		dir := filepath.Join(n.Dir, "crypto")
		_ = filepath.Walk(dir, func(p string, info os.FileInfo, err error) error {
			if err != nil || info.IsDir() {
				return nil
			}
			data, _ := os.ReadFile(p)
			block, _ := pem.Decode(data)
			if block == nil {
				return nil
			}
			var key interface{}
			if k, err := x509.ParsePKCS8PrivateKey(block.Bytes); err == nil {
				key = k
			} else if k, err := x509.ParseECPrivateKey(block.Bytes); err == nil {
				key = k
			} else if k, err := x509.ParsePKCS1PrivateKey(block.Bytes); err == nil {
				key = k
			}
			if key != nil {
				sample.Keys++
				needles = append(needles, keyNeedles(n.Name+"/"+filepath.Base(p), key)...)
			}
			return nil
		})
	}
	sample.Needles = len(needles)
	if sample.Keys == 0 {
		s.Fail("C03.harness", "no-keys", "no private keys found in the key store directories")
		return
	}
	var scanData func(channel string, data []byte, depth int) bool
	scanData = func(channel string, data []byte, depth int) bool {
		for _, nd := range needles {
			if bytes.Contains(data, nd.b) {
				s.Fail("C03.canary", strings.SplitN(channel, ":", 2)[0], "private key material (%s) found in channel %q (base64 nesting %d): ...%s...", nd.what, channel, depth, excerpt(data, nd.b))
				return false
			}
		}
		if depth >= 2 {
			return true
		}
		// tokens and JWS headers carry base64 inside base64: decode every base64-looking run and look inside
		for _, run := range b64Run.FindAll(data, -1) {
			for _, enc := range []*base64.Encoding{base64.RawURLEncoding, base64.RawStdEncoding} {
				if dec, err := enc.DecodeString(strings.TrimRight(string(run), "=")); err == nil && len(dec) >= 16 {
					sample.Channels["(decoded base64 runs)"]++
					if !scanData(channel, dec, depth+1) {
						return false
					}
					break
				}
			}
		}
		return true
	}
	scan := func(channel string, data []byte) bool {
		sample.Channels[channel] += len(data)
		return scanData(channel, data, 0)
	}
	for _, r := range w.HTTP.Requests() {
		if !scan("http-request", append([]byte(r.URL+"\n"+r.ReqHeader+"\n"), r.ReqBody...)) || !scan("http-response", append([]byte(r.RespHeader+"\n"), r.RespBody...)) {
			return
		}
	}
	for _, x := range w.APILog {
		if !scan("api-response", x) {
			return
		}
	}
	if !scan("go-error", []byte(strings.Join(goErrors, "\n"))) {
		return
	}
	for _, x := range wires {
		if !scan("p2p-envelope", x) {
			return
		}
	}
	if !scan("log", []byte(strings.Join(w.LogHook.Lines, "\n"))) {
		return
	}
	var ab strings.Builder
	for _, e := range auditLog.Hook.AllEntries() {
		ab.WriteString(e.Message)
		for k, v := range e.Data {
			fmt.Fprintf(&ab, " %s=%v", k, v)
		}
		ab.WriteString("\n")
	}
	if !scan("audit-log", []byte(ab.String())) {
		return
	}
	for _, n := range []*world.Node{a, b} {
		// SQL rows
		db := n.Storage.Real.GetSQLDatabase()
		var tables []string
		db.Raw("SELECT name FROM sqlite_master WHERE type='table'").Scan(&tables)
		sort.Strings(tables)
		for _, t := range tables {
			rows, err := db.Raw("SELECT * FROM " + t).Rows()
			if err != nil {
				continue
			}
			cols, _ := rows.Columns()
			var buf bytes.Buffer
			for rows.Next() {
				vals := make([]interface{}, len(cols))
				ptrs := make([]interface{}, len(cols))
				for i := range vals {
					ptrs[i] = &vals[i]
				}
				if rows.Scan(ptrs...) == nil {
					for _, v := range vals {
						switch x := v.(type) {
						case []byte:
							buf.Write(x)
						case string:
							buf.WriteString(x)
						default:
							fmt.Fprint(&buf, x)
						}
						buf.WriteByte('\n')
					}
				}
			}
			rows.Close()
			if !scan("sql:"+t, buf.Bytes()) {
				return
			}
		}
		// session store writes
		if n.Session != nil {
			n.Session.KeepWrites = true // (already set at start; kept for restarts)
			if !scan("session-store", []byte(strings.Join(n.Session.Writes, "\n"))) {
				return
			}
		}
		// files outside the key store directory
		_ = filepath.Walk(n.Dir, func(p string, info os.FileInfo, err error) error {
			if err != nil || info.IsDir() || strings.HasPrefix(p, filepath.Join(n.Dir, "crypto")) || s.Failed() {
				return nil
			}
			data, _ := os.ReadFile(p)
			scan("file:"+filepath.Ext(p), data)
			return nil
		})
		if s.Failed() {
			return
		}
	}
	rc.Nontrivial = sample.Keys > 0 && len(sample.Ops) > 5
}

var c03RSAOnce, c03LegacyOnce sync.Once
var c03RSA, c03LegacyRSA *rsa.PrivateKey

// c03LegacyRSAKey is the RSA key placed in the key store (another one than the key the workload sends as a caller).
func c03LegacyRSAKey() *rsa.PrivateKey {
	c03LegacyOnce.Do(func() { c03LegacyRSA, _ = rsa.GenerateKey(rand.Reader, 1024) })
	return c03LegacyRSA
}

// c03RSAKey is one RSA key per process (generation is slow; its value does not matter).
func c03RSAKey() *rsa.PrivateKey {
	c03RSAOnce.Do(func() { c03RSA, _ = rsa.GenerateKey(rand.Reader, 1024) })
	return c03RSA
}

func jwkMap(key interface{}) map[string]interface{} {
	k, err := jwk.FromRaw(key)
	if err != nil {
		panic(err)
	}
	b, _ := json.Marshal(k)
	m := map[string]interface{}{}
	_ = json.Unmarshal(b, &m)
	return m
}

func excerpt(data, needle []byte) string {
	i := bytes.Index(data, needle)
	lo, hi := i-40, i+24
	if lo < 0 {
		lo = 0
	}
	if hi > len(data) {
		hi = len(data)
	}
	return strings.Map(func(r rune) rune {
		if r < 32 || r > 126 {
			return '.'
		}
		return r
	}, string(data[lo:hi]))
}

func listFiles(root string) map[string]bool {
	out := map[string]bool{}
	_ = filepath.Walk(root, func(p string, info os.FileInfo, err error) error {
		if err == nil && !info.IsDir() {
			out[p] = true
		}
		return nil
	})
	return out
}
