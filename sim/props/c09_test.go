package props

import (
	"context"
	"crypto/ecdsa"
	"encoding/json"
	"errors"
	"fmt"
	"sort"
	"strings"
	"testing"
	"time"

	"github.com/lestrrat-go/jwx/v2/jwk"
	ssi "github.com/nuts-foundation/go-did"
	"github.com/nuts-foundation/go-did/did"
	"github.com/nuts-foundation/nuts-node/crypto/hash"
	"github.com/nuts-foundation/nuts-node/network/dag"
	"github.com/nuts-foundation/nuts-node/vdr/didnuts"
	"github.com/nuts-foundation/nuts-node/vdr/resolver"
	"verifsim/simkit"
	"verifsim/world"
)

// C09 — did:nuts documents change only by the DID's own key or a controller's key.
//
// World A, one real node (Network engine, DAG verifiers, notifier, VDR ambassador, validators,
// DID store). The workload plays the rest of the network: it builds DID documents and signs the
// DAG transactions that carry them with its own keys, keeping ground truth per DID (versions,
// controllers, which keys hold capabilityInvocation at each version). Honest traffic: creation,
// service changes, key rotation, controller changes, updates by a controller, deactivation.
// Attacks: transactions the DAG layer may legitimately admit (correctly signed by some embedded
// or resolvable key) that the VDR must refuse. The node is restarted at seeded points.

func TestC09(t *testing.T) {
	simkit.Main(t, simkit.Spec{Property: "C09", World: "A/1node", Body: c09Body, MaxStepsPerRun: 80000})
}

type c9Key struct {
	priv  *ecdsa.PrivateKey
	thumb string
}

func newC9Key() *c9Key {
	k := world.NewKey()
	j, _ := jwk.FromRaw(k.Public())
	_ = jwk.AssignKeyID(j) // the fragment of a verification method is the key's (base64url) thumbprint
	return &c9Key{priv: k, thumb: j.KeyID()}
}

type c9Version struct {
	doc         did.Document
	payload     []byte
	tx          *world.CTx
	capInv      map[string]bool // key thumbprints
	controllers []string
	deactivated bool
	at          time.Time // signing time of its transaction
}

type c9DID struct {
	name     string
	id       did.DID
	keys     []*c9Key // all keys ever used for it
	versions []*c9Version
}

func (d *c9DID) latest() *c9Version { return d.versions[len(d.versions)-1] }

type c09Sample struct {
	Events   []string `json:"events"`
	Restarts int      `json:"restarts"`
}

func vmFor(id did.DID, k *c9Key) *did.VerificationMethod {
	vm, err := did.NewVerificationMethod(did.DIDURL{DID: id, Fragment: k.thumb}, ssi.JsonWebKey2020, id, k.priv.Public())
	if err != nil {
		panic(err)
	}
	return vm
}

func c09Body(s *simkit.Sim, rc *simkit.RunCtx) {
	sample := &c09Sample{}
	rc.Sample = sample
	h := newDagHarness(s, rc)
	defer h.finish()
	h.w.LogHook.Keep = debugGaps
	defer func() {
		if debugGaps {
			for _, l := range h.w.LogHook.Lines {
				if strings.HasPrefix(l, "error") || strings.HasPrefix(l, "warn") {
					fmt.Println("LOG", l)
				}
			}
		}
	}()
	h.start()
	ctx := context.Background()
	corpus := h.corpus
	root := corpus.Root()
	if err := h.node().State().Add(ctx, root.Tx, root.Payload); err != nil {
		s.Fail("C09.harness", "root", "%v", err)
		return
	}
	head := root // the transaction new ones build upon (a linear DAG is enough here)
	s.Enable(true)

	dids := map[string]*c9DID{}
	var order []string
	docBytes := func(doc did.Document) []byte { b, _ := json.Marshal(doc); return b }
	// offer a transaction carrying a DID document; returns the corpus transaction
	offer := func(payload []byte, key *c9Key, kid string, extraPrevs ...*world.CTx) (*world.CTx, error) {
		prevs := []hash.SHA256Hash{head.Ref}
		lc := head.LC + 1
		seen := map[hash.SHA256Hash]bool{head.Ref: true}
		for _, p := range extraPrevs {
			if p != nil && !seen[p.Ref] {
				seen[p.Ref] = true
				prevs = append(prevs, p.Ref)
				if p.LC+1 > lc {
					lc = p.LC + 1
				}
			}
		}
		t, err := corpus.SignWith(prevs, lc, payload, didnuts.DIDDocumentType, key.priv, kid)
		if err != nil {
			return nil, err
		}
		var addErr error
		s.Do("offer", time.Minute, func() { addErr = h.node().State().Add(ctx, t.Tx, t.Payload) })
		if addErr == nil {
			head = t
		}
		return t, addErr
	}
	createDID := func(name string) *c9DID {
		k := newC9Key()
		kid, _ := didnuts.DIDKIDNamingFunc(k.priv.Public())
		u := did.MustParseDIDURL(kid)
		d := &c9DID{name: name, id: u.DID, keys: []*c9Key{k}}
		doc := didnuts.CreateDocument()
		doc.ID = d.id
		vm := vmFor(d.id, k)
		doc.AddCapabilityInvocation(vm)
		doc.AddAssertionMethod(vm)
		payload := docBytes(doc)
		t, err := offer(payload, k, "")
		if err != nil {
			s.Fail("C09.harness", "create", "honest creation rejected by the DAG: %v", err)
			return nil
		}
		d.versions = append(d.versions, &c9Version{doc: doc, payload: payload, tx: t, capInv: map[string]bool{k.thumb: true}, at: time.Now()})
		dids[name] = d
		order = append(order, name)
		return d
	}
	// keys authorised to change d, judged against its latest version
	authorised := func(d *c9DID) map[string]*c9DID {
		out := map[string]*c9DID{}
		v := d.latest()
		if v.deactivated {
			return out
		}
		ctrls := v.controllers
		if len(ctrls) == 0 {
			for k := range v.capInv {
				out[k] = d
			}
			return out
		}
		for _, c := range ctrls {
			for _, o := range dids {
				if o.id.String() == c && !o.latest().deactivated {
					for k := range o.latest().capInv {
						out[k] = o
					}
				}
			}
		}
		return out
	}
	keyByThumb := func(t string) *c9Key {
		for _, d := range dids {
			for _, k := range d.keys {
				if k.thumb == t {
					return k
				}
			}
		}
		return nil
	}
	// observation
	type obs struct {
		hash string
		keys []string
		err  string
	}
	observe := func(d *c9DID) obs {
		doc, md, err := h.node().DIDs.Resolve(d.id, &resolver.ResolveMetadata{AllowDeactivated: true})
		if err != nil {
			return obs{err: err.Error()}
		}
		o := obs{hash: md.Hash.String()}
		for _, ci := range doc.CapabilityInvocation {
			o.keys = append(o.keys, ci.ID.Fragment)
		}
		sort.Strings(o.keys)
		return o
	}
	checkAll := func(where string) bool {
		for _, name := range order {
			d := dids[name]
			o := observe(d)
			want := hash.SHA256Sum(d.latest().payload).String()
			if o.err != "" {
				s.Fail("C09.authorised", "lost:"+where, "%s: %s (%s) does not resolve any more: %s", where, name, d.id, o.err)
				return false
			}
			if o.hash != want {
				s.Fail("C09.authorised", where, "%s: %s (%s) resolves to document %s, the latest authorised version is %s", where, name, d.id, o.hash, want)
				return false
			}
			for _, k := range o.keys {
				if !d.latest().capInv[k] {
					s.Fail("C09.keys", where, "%s: %s lists capabilityInvocation key %s which no authorised version gave it", where, name, k)
					return false
				}
			}
		}
		return true
	}

	a := createDID("A")
	b := createDID("B")
	if a == nil || b == nil {
		return
	}
	if !checkAll("creation") {
		return
	}
	svcN := 0
	nev := 5 + s.D.Decide("events", 10)
	for k := 0; k < nev && !s.Failed(); k++ {
		s.Advance(time.Duration(2+s.D.Decide("gap-s", 120)) * time.Second) // versions have distinct times
		target := dids[order[s.D.Decide("target", len(order))]]
		cur := target.latest()
		if cur.deactivated {
			continue
		}
		auth := authorised(target)
		var authThumbs []string
		for t := range auth {
			authThumbs = append(authThumbs, t)
		}
		sort.Strings(authThumbs)
		// a document nobody is authorised to change any more (its controller was deactivated) still attracts attacks
		orphaned := len(authThumbs) == 0
		// the next document: the current one, changed
		var next did.Document
		_ = json.Unmarshal(cur.payload, &next)
		svcN++
		next.Service = append(next.Service, did.Service{ID: ssi.MustParseURI(fmt.Sprintf("%s#svc%d", target.id, svcN)), Type: fmt.Sprintf("type%d", svcN), ServiceEndpoint: fmt.Sprintf("https://e%d.sim", svcN)})
		nv := &c9Version{capInv: map[string]bool{}, controllers: append([]string(nil), cur.controllers...), at: time.Now()}
		for t := range cur.capInv {
			nv.capInv[t] = true
		}
		kinds := []string{"honest-service", "honest-service", "honest-add-key", "honest-remove-old-key", "honest-set-controller", "honest-drop-controller", "honest-deactivate", "honest-new-did",
			"attack-foreign-create", "attack-non-controller-key", "attack-own-key-of-controlled-document", "attack-invalid-key-id-kid-in-jwk",
			"honest-demote-key", "honest-demote-key", "honest-deactivate-keeping-key", "attack-demoted-controller-key-backdated", "attack-demoted-controller-key-backdated", "attack-deactivated-controller-key-by-deactivation", "attack-assertion-only-key", "attack-removed-key", "attack-deactivated-controller-key",
			"attack-invalid-id-prefix", "attack-invalid-duplicate-id", "attack-invalid-key-id", "attack-invalid-two-services-one-type", "attack-invalid-foreign-vm-controller",
			"attack-invalid-key-swapped-under-existing-id", "attack-invalid-key-swapped-under-existing-id", "attack-invalid-embedded-method-foreign-id", "attack-invalid-embedded-method-not-thumbprint"}
		kind := kinds[s.D.Decide("kind", len(kinds))]
		var signer *c9Key
		var signerDID *c9DID
		if orphaned {
			// only the attacks that bring their own signer
			switch kind {
			case "attack-deactivated-controller-key", "attack-deactivated-controller-key-by-deactivation", "attack-removed-key", "attack-non-controller-key":
			default:
				continue
			}
		} else {
			signer = keyByThumb(authThumbs[s.D.Decide("signer", len(authThumbs))])
			if signer == nil {
				continue
			}
			signerDID = auth[signer.thumb]
		}
		valid := true
		expectAuthorised := true
		var backdate time.Time // signing time of the offered transaction, if not now
		switch kind {
		case "honest-service":
		case "honest-add-key":
			nk := newC9Key()
			target.keys = append(target.keys, nk)
			vm := vmFor(target.id, nk)
			next.AddCapabilityInvocation(vm)
			nv.capInv[nk.thumb] = true
		case "honest-remove-old-key":
			if len(cur.capInv) < 2 {
				continue
			}
			var ts []string
			for t := range cur.capInv {
				ts = append(ts, t)
			}
			sort.Strings(ts)
			rm := ts[0]
			if rm == signer.thumb && signerDID == target {
				rm = ts[1]
			}
			next.RemoveVerificationMethod(did.DIDURL{DID: target.id, Fragment: rm})
			delete(nv.capInv, rm)
		case "honest-set-controller":
			other := dids["A"]
			if target == other {
				other = dids["B"]
			}
			// no chains and no cycles: a controller is self-controlled, and a DID that controls another gets no controller
			// (nested controllers have resolution rules of their own - depth limit, active controller - that this model does not mirror)
			controlsSomeone := false
			for _, n := range order {
				for _, c := range dids[n].latest().controllers {
					if c == target.id.String() {
						controlsSomeone = true
					}
				}
			}
			if other.latest().deactivated || len(cur.controllers) > 0 || len(other.latest().controllers) > 0 || controlsSomeone {
				continue
			}
			next.Controller = []did.DID{other.id}
			nv.controllers = []string{other.id.String()}
		case "honest-drop-controller":
			if len(cur.controllers) == 0 {
				continue
			}
			if len(cur.capInv) == 0 {
				continue
			}
			next.Controller = nil
			nv.controllers = nil
		case "honest-deactivate":
			if s.D.Decide("really-deactivate", 3) != 0 {
				continue
			}
			next = didnuts.CreateDocument()
			next.ID = target.id
			nv.deactivated = true
			nv.capInv = map[string]bool{}
			nv.controllers = nil
		case "honest-new-did":
			if len(order) >= 4 {
				continue
			}
			if createDID(fmt.Sprintf("D%d", len(order))) == nil {
				return
			}
			sample.Events = append(sample.Events, "honest-new-did")
			continue
		case "attack-foreign-create":
			// a new DID whose identifier comes from one key while the transaction embeds (and is signed by) another
			kx, ky := newC9Key(), newC9Key()
			kid, _ := didnuts.DIDKIDNamingFunc(kx.priv.Public())
			u := did.MustParseDIDURL(kid)
			doc := didnuts.CreateDocument()
			doc.ID = u.DID
			doc.AddCapabilityInvocation(vmFor(u.DID, kx))
			payload := docBytes(doc)
			t, _ := offer(payload, ky, "")
			sample.Events = append(sample.Events, kind)
			s.Info.Inc(kind)
			if _, _, err := h.node().DIDs.Resolve(u.DID, &resolver.ResolveMetadata{AllowDeactivated: true}); err == nil {
				s.Fail("C09.authorised", kind, "a DID whose identifier is not the thumbprint of the key embedded in the creating transaction became resolvable (%s, tx %s)", u.DID, t.Ref)
				return
			}
			continue
		case "attack-non-controller-key":
			// signed by a key of another DID that is not a controller
			var outsider *c9DID
			for _, n := range order {
				o := dids[n]
				if o != target && !o.latest().deactivated && auth[firstKey(o.latest().capInv)] == nil && len(o.latest().capInv) > 0 {
					outsider = o
				}
			}
			if outsider == nil {
				continue
			}
			signer = keyByThumb(firstKey(outsider.latest().capInv))
			signerDID = outsider
			expectAuthorised = false
		case "attack-own-key-of-controlled-document":
			// the document names another DID as its only controller but still lists a capabilityInvocation key of its own: that key may not change it
			if len(cur.controllers) == 0 || len(cur.capInv) == 0 {
				continue
			}
			var own []string
			for t := range cur.capInv {
				if auth[t] == nil {
					own = append(own, t)
				}
			}
			sort.Strings(own)
			if len(own) == 0 {
				continue
			}
			signer, signerDID = keyByThumb(own[0]), target
			expectAuthorised = false
		case "attack-invalid-key-id-kid-in-jwk":
			// the key id is not the key's thumbprint, and the embedded JWK claims that id as its kid
			nk := newC9Key()
			vm, _ := did.NewVerificationMethod(did.DIDURL{DID: target.id, Fragment: "not-the-thumbprint"}, ssi.JsonWebKey2020, target.id, nk.priv.Public())
			vm.PublicKeyJwk["kid"] = "not-the-thumbprint"
			next.AddCapabilityInvocation(vm)
			valid = false
		case "attack-assertion-only-key":
			// a key of the target itself that only has the assertionMethod relationship: first add it (honestly), then use it
			nk := newC9Key()
			target.keys = append(target.keys, nk)
			next.AddAssertionMethod(vmFor(target.id, nk))
			// (the honest part of this event: the document with the extra assertion key)
			payload := docBytes(next)
			t, err := offer(payload, signer, signerDID.id.String()+"#"+signer.thumb, cur.tx, signerDID.latest().tx)
			if err != nil {
				s.Fail("C09.harness", "honest-rejected", "honest update (assertion key) rejected by the DAG: %v", err)
				return
			}
			nv.doc, nv.payload, nv.tx = next, payload, t
			target.versions = append(target.versions, nv)
			if !checkAll("honest-add-assertion-key") {
				return
			}
			// now the attack: that key signs an update
			cur = target.latest()
			var next2 did.Document
			_ = json.Unmarshal(cur.payload, &next2)
			svcN++
			next2.Service = append(next2.Service, did.Service{ID: ssi.MustParseURI(fmt.Sprintf("%s#svc%d", target.id, svcN)), Type: fmt.Sprintf("type%d", svcN), ServiceEndpoint: "https://evil.sim"})
			at, _ := offer(docBytes(next2), nk, target.id.String()+"#"+nk.thumb, cur.tx)
			sample.Events = append(sample.Events, kind)
			s.Info.Inc(kind)
			if !checkAll(kind) {
				return
			}
			if at != nil {
				if _, _, err := h.node().DIDs.Resolve(target.id, &resolver.ResolveMetadata{AllowDeactivated: true, SourceTransaction: &at.Ref}); err == nil {
					s.Fail("C09.no-effect", kind, "the document of a refused transaction resolves by its source transaction")
					return
				}
			}
			continue
		case "attack-removed-key":
			// a key that an earlier version listed and the current one does not
			var removed *c9Key
			for _, v := range target.versions {
				for t := range v.capInv {
					if !cur.capInv[t] && auth[t] == nil {
						removed = keyByThumb(t)
					}
				}
			}
			if removed == nil {
				continue
			}
			signer, signerDID = removed, target
			expectAuthorised = false
		case "honest-demote-key":
			// a key loses the capabilityInvocation relationship but stays in the document as an assertion key
			if len(cur.capInv) < 2 {
				continue
			}
			var ts []string
			for t := range cur.capInv {
				ts = append(ts, t)
			}
			sort.Strings(ts)
			rm := ts[0]
			if rm == signer.thumb && signerDID == target {
				rm = ts[1]
			}
			rmID := did.DIDURL{DID: target.id, Fragment: rm}
			vm := next.VerificationMethod.FindByID(rmID)
			if vm == nil {
				continue
			}
			next.CapabilityInvocation.Remove(rmID)
			if next.AssertionMethod.FindByID(rmID) == nil {
				next.AddAssertionMethod(vm)
			}
			delete(nv.capInv, rm)
		case "honest-deactivate-keeping-key":
			// deactivated (no controller, no capabilityInvocation key) by a document that keeps its keys for assertions
			if s.D.Decide("really-deactivate", 3) != 0 || len(cur.controllers) > 0 {
				continue
			}
			kept := didnuts.CreateDocument()
			kept.ID = target.id
			for _, vm := range next.VerificationMethod {
				kept.AddAssertionMethod(vm)
			}
			next = kept
			nv.deactivated = true
			nv.capInv = map[string]bool{}
			nv.controllers = nil
		case "attack-demoted-controller-key-backdated":
			// The controller demoted a key (it is still in its document, for assertions). An update of the controlled document
			// signed with that key, referring to the controller's present version and dated back to when the key still had
			// the capabilityInvocation relationship, is not authorised: the referred version decides.
			if len(cur.controllers) == 0 {
				continue
			}
			var ctrl *c9DID
			for _, n := range order {
				if dids[n].id.String() == cur.controllers[0] {
					ctrl = dids[n]
				}
			}
			if ctrl == nil || ctrl.latest().deactivated {
				continue
			}
			var old *c9Version
			var oldKey string
			for _, v := range ctrl.versions[:len(ctrl.versions)-1] {
				for t := range v.capInv {
					if !ctrl.latest().capInv[t] && ctrl.latest().doc.VerificationMethod.FindByID(did.DIDURL{DID: ctrl.id, Fragment: t}) != nil {
						old, oldKey = v, t
					}
				}
			}
			if old == nil {
				continue
			}
			signer, signerDID = keyByThumb(oldKey), ctrl
			expectAuthorised = false
			backdate = old.at.Add(time.Second)
		case "attack-deactivated-controller-key-by-deactivation":
			// the controller was deactivated by a document that keeps its key; the update refers to that deactivating version
			var dead *c9DID
			for _, n := range order {
				if o := dids[n]; o != target && o.latest().deactivated && len(o.versions) > 1 && len(o.latest().doc.VerificationMethod) > 0 {
					if dead == nil || (len(cur.controllers) > 0 && cur.controllers[0] == o.id.String()) {
						dead = o // preferably the target's own (former) controller
					}
				}
			}
			if dead == nil {
				continue
			}
			prev := dead.versions[len(dead.versions)-2]
			var k string
			for t := range prev.capInv {
				if dead.latest().doc.VerificationMethod.FindByID(did.DIDURL{DID: dead.id, Fragment: t}) != nil {
					k = t
				}
			}
			signer, signerDID = keyByThumb(k), dead
			if signer == nil {
				continue
			}
			expectAuthorised = false
		case "attack-deactivated-controller-key":
			var dead *c9DID
			for _, n := range order {
				if o := dids[n]; o != target && o.latest().deactivated && len(o.versions) > 1 {
					dead = o
				}
			}
			if dead == nil {
				continue
			}
			prev := dead.versions[len(dead.versions)-2]
			signer, signerDID = keyByThumb(firstKey(prev.capInv)), dead
			if signer == nil {
				continue
			}
			expectAuthorised = false
		case "attack-invalid-id-prefix":
			next.Service[len(next.Service)-1].ID = ssi.MustParseURI("did:nuts:someoneElse#svc")
			valid = false
		case "attack-invalid-duplicate-id":
			next.Service = append(next.Service, did.Service{ID: next.Service[len(next.Service)-1].ID, Type: "another-type", ServiceEndpoint: "https://dup.sim"})
			valid = false
		case "attack-invalid-key-id":
			nk := newC9Key()
			vm, _ := did.NewVerificationMethod(did.DIDURL{DID: target.id, Fragment: "not-the-thumbprint"}, ssi.JsonWebKey2020, target.id, nk.priv.Public())
			next.AddCapabilityInvocation(vm)
			valid = false
		case "attack-invalid-key-swapped-under-existing-id":
			// a verification method that earlier versions already had keeps its id, but holds another key now: id != thumbprint
			if len(next.VerificationMethod) == 0 {
				continue
			}
			nk := newC9Key()
			repl, _ := did.NewVerificationMethod(next.VerificationMethod[len(next.VerificationMethod)-1].ID, ssi.JsonWebKey2020, target.id, nk.priv.Public())
			next.VerificationMethod[len(next.VerificationMethod)-1].PublicKeyJwk = repl.PublicKeyJwk
			valid = false
		case "attack-invalid-embedded-method-foreign-id", "attack-invalid-embedded-method-not-thumbprint":
			// a verification method that is not in the verificationMethod list but embedded in the capabilityInvocation relationship,
			// with an id under another DID / an id that is not the key's thumbprint
			nk := newC9Key()
			mid := did.DIDURL{DID: target.id, Fragment: "embedded-not-the-thumbprint"}
			if kind == "attack-invalid-embedded-method-foreign-id" {
				mid = did.DIDURL{DID: did.MustParseDID("did:nuts:someoneElse"), Fragment: nk.thumb}
			}
			vm, _ := did.NewVerificationMethod(mid, ssi.JsonWebKey2020, target.id, nk.priv.Public())
			next.CapabilityInvocation = append(next.CapabilityInvocation, did.VerificationRelationship{VerificationMethod: vm})
			valid = false
		case "attack-invalid-two-services-one-type":
			svcN++
			next.Service = append(next.Service, did.Service{ID: ssi.MustParseURI(fmt.Sprintf("%s#svc%d", target.id, svcN)), Type: next.Service[len(next.Service)-1].Type, ServiceEndpoint: "https://two.sim"})
			valid = false
		case "attack-invalid-foreign-vm-controller":
			nk := newC9Key()
			target.keys = append(target.keys, nk)
			vm, _ := did.NewVerificationMethod(did.DIDURL{DID: target.id, Fragment: nk.thumb}, ssi.JsonWebKey2020, did.MustParseDID("did:nuts:someoneElse"), nk.priv.Public())
			next.AddCapabilityInvocation(vm)
			valid = false
			_ = vm
		}
		if signer == nil {
			continue
		}
		payload := docBytes(next)
		kid := signerDID.id.String() + "#" + signer.thumb
		// prevs: the version it succeeds, and the version of the signer's document that lists the key
		signerTx := signerDID.latest().tx
		if kind == "attack-deactivated-controller-key" {
			signerTx = signerDID.versions[len(signerDID.versions)-2].tx
		}
		before := observe(target)
		if !backdate.IsZero() {
			corpus.Now = func() time.Time { return backdate }
		}
		t, addErr := offer(payload, signer, kid, cur.tx, signerTx)
		corpus.Now = time.Now
		ok := expectAuthorised && valid
		sample.Events = append(sample.Events, fmt.Sprintf("%s on %s by %s key -> dag:%v", kind, target.name, signerDID.name, addErr == nil))
		s.Info.Inc(kind)
		if ok {
			if addErr != nil {
				s.Fail("C09.harness", "honest-rejected", "honest %s rejected by the DAG: %v", kind, addErr)
				return
			}
			nv.doc, nv.payload, nv.tx = next, payload, t
			target.versions = append(target.versions, nv)
		}
		if kind == "attack-deactivated-controller-key" && len(cur.controllers) > 0 && cur.controllers[0] == signerDID.id.String() {
			// The update refers to the version of the target's controller from before that controller's deactivation, in which
			// the key is a capabilityInvocation key. The rule speaks of "a controller of the version it succeeds" as the
			// transaction refers to it - an update made without knowledge of the later deactivation is of this shape too - so
			// this one is observed, not judged. (Referring to the deactivating version itself is judged: see the -by-deactivation attack.)
			after := observe(target)
			if after.hash != before.hash {
				s.Info.Inc("update-referring-to-controller-version-before-its-deactivation-accepted")
				nv.doc, nv.payload, nv.tx = next, payload, t
				target.versions = append(target.versions, nv)
			}
			continue
		}
		if kind == "attack-invalid-foreign-vm-controller" {
			// whether a verification method may name another controller is not among the rules the property lists as mandatory: observe only
			after := observe(target)
			if after.hash != before.hash {
				s.Info.Inc("foreign-vm-controller-accepted")
				nv.doc, nv.payload, nv.tx = next, payload, t
				for _, ci := range next.CapabilityInvocation {
					nv.capInv[ci.ID.Fragment] = true
				}
				target.versions = append(target.versions, nv)
			}
			continue
		}
		if !checkAll(kind) {
			return
		}
		if !ok && t != nil {
			after := observe(target)
			if after.hash != before.hash || strings.Join(after.keys, ",") != strings.Join(before.keys, ",") {
				s.Fail("C09.no-effect", kind, "a refused document changed what %s resolves to", target.name)
				return
			}
			if _, _, err := h.node().DIDs.Resolve(target.id, &resolver.ResolveMetadata{AllowDeactivated: true, SourceTransaction: &t.Ref}); err == nil {
				s.Fail("C09.no-effect", kind+":by-source-tx", "the document of a refused transaction resolves by its source transaction")
				return
			}
			ph := hash.SHA256Sum(payload)
			if _, _, err := h.node().DIDs.Resolve(target.id, &resolver.ResolveMetadata{AllowDeactivated: true, Hash: &ph}); err == nil {
				s.Fail("C09.no-effect", kind+":by-hash", "the document of a refused transaction resolves by its hash")
				return
			}
		}
		// restart at seeded points: what is resolvable comes back from the files
		if s.D.Decide("restart", 8) == 7 {
			s.Enable(false)
			if _, err := h.w.Restart(h.name); err != nil {
				s.Fail("C09.harness", "restart", "%v", err)
				return
			}
			s.Enable(true)
			sample.Restarts++
			if !checkAll("after-restart") {
				return
			}
		}
	}
	rc.Nontrivial = len(sample.Events) > 2
	_ = errors.New
	_ = dag.MaxLamportClock
}

func firstKey(m map[string]bool) string {
	var ks []string
	for k := range m {
		ks = append(ks, k)
	}
	sort.Strings(ks)
	if len(ks) == 0 {
		return ""
	}
	return ks[0]
}
