package props

import (
	"encoding/json"
	"fmt"
	"net/http"
	"net/url"
	"os"
	"strings"
	"sync"
	"sync/atomic"
	"testing"
	"time"

	"verifsim/seams"
	"verifsim/simkit"
	"verifsim/world"
)

// C05 — one-time secrets are honoured at most once under every interleaving.
//
// World B: an authorization-server node whose session database runs on the simulator's cache
// store (verif hook), so that every single session-store operation is a scheduling point, and
// a client node. A valid one-time secret is obtained from the real flow, then two or three
// requests present it concurrently (all interleavings of their store operations are in the
// search space), and afterwards sequentially within and after its validity window.

func TestC05(t *testing.T) {
	simkit.Main(t, simkit.Spec{Property: "C05", World: "B/2nodes", Body: c05Body, MaxStepsPerRun: 40000})
}

type c05Sample struct {
	Kind        string   `json:"secret_kind"`
	Concurrent  int      `json:"concurrent_requests"`
	Successes   int      `json:"concurrent_successes"`
	Interleave  string   `json:"store_operation_interleaving"`
	LaterReplay []string `json:"sequential_replays"`
}

type webPair struct {
	w        *world.World
	as, cl   *world.Node
	didA     string
	didB     string
	asServer string
}

// newWebPair starts an authorization-server node with subject vendorA and a client node with
// subject vendorB holding a self-issued organization credential.
func newWebPair(s *simkit.Sim, rc *simkit.RunCtx, simSession bool, statusList bool) (*webPair, error) {
	w := world.New(s, rc)
	p := &webPair{w: w}
	var err error
	env := map[string]string{"NUTS_AUTH_AUTHORIZATIONENDPOINT_ENABLED": "true"}
	if p.as, err = w.StartNode(world.NodeOpts{Name: "nodea", DIDMethods: "web", Web: true, SimSession: simSession, Env: env}); err != nil {
		return p, err
	}
	if p.cl, err = w.StartNode(world.NodeOpts{Name: "nodeb", DIDMethods: "web", Web: true, SimSession: simSession, Env: env}); err != nil {
		return p, err
	}
	da, err := p.as.CreateSubject("vendorA")
	if err != nil {
		return p, err
	}
	db, err := p.cl.CreateSubject("vendorB")
	if err != nil {
		return p, err
	}
	p.didA, p.didB = da[0], db[0]
	vc, _, err := p.cl.IssueOrgCredential(p.didB, p.didB, "Caresoft B.V.", "Caretown", statusList, "")
	if err != nil {
		return p, err
	}
	if err := p.cl.LoadIntoWallet("vendorB", vc); err != nil {
		return p, err
	}
	p.asServer = "https://nodea.sim/oauth2/vendorA"
	return p, nil
}

func c05Body(s *simkit.Sim, rc *simkit.RunCtx) {
	sample := &c05Sample{}
	rc.Sample = sample
	p, err := newWebPair(s, rc, true, false)
	if p.w != nil {
		defer p.w.Shutdown()
	}
	if err != nil {
		s.Fail("C05.harness", "setup", "%v", err)
		return
	}
	kinds := []string{"s2s-nonce", "dpop-jti", "s2s-nonce-future-dated", "authorization-code", "authorization-code", "request-object", "openid4vp-nonce"}
	kind := kinds[s.D.Decide("kind", len(kinds))]
	k := 2 + s.D.Decide("concurrent", 2)
	futureDated := kind == "s2s-nonce-future-dated"
	if futureDated {
		// a presentation whose validity starts a few seconds ahead (a client whose clock runs ahead, within the
		// allowed skew): presented once and then replayed sequentially. One request at a time.
		kind, k = "s2s-nonce", 1
	}
	sample.Kind, sample.Concurrent = kind, k

	// what each concurrent request does, and whether its answer means "honoured"
	var fire func() bool
	switch kind {
	case "s2s-nonce":
		// let the client build a real token request, and lose it on the wire: the presentation and
		// its nonce are now valid and unused
		var captured []byte
		p.w.HTTP.LoseIf = func(req *http.Request) bool {
			return req.Method == "POST" && strings.HasSuffix(req.URL.Path, "/oauth2/vendorA/token")
		}
		scope := "simple"
		if futureDated {
			scope = "simple"
		}
		tr := p.cl.RequestServiceToken("vendorB", p.asServer, scope, "Bearer", true)
		p.w.HTTP.LoseIf = nil
		for _, r := range p.w.HTTP.Requests() {
			if r.Method == "POST" && strings.HasSuffix(r.Path, "/token") {
				captured = r.ReqBody
			}
		}
		if captured == nil {
			s.Fail("C05.harness", "capture", "no token request captured (client answered %d %s)", tr.Code, tr.Body)
			return
		}
		if futureDated {
			form, err := url.ParseQuery(string(captured))
			if err != nil || !strings.HasPrefix(strings.TrimSpace(form.Get("assertion")), "{") {
				s.Fail("C05.harness", "capture", "the captured presentation is not a JSON-LD one: %s", trunc(string(captured), 200))
				return
			}
			ahead := time.Duration(1+s.D.Decide("ahead-s", 5)) * time.Second
			sample.Kind = fmt.Sprintf("s2s-nonce (validity starts %v ahead)", ahead)
			created := time.Now().Add(ahead)
			forged, err := p.cl.ReissueLDPresentation([]byte(form.Get("assertion")), created, created.Add(5*time.Second), fmt.Sprintf("reissued-%d", s.D.Decide("nonce", 1000000)))
			if err != nil {
				s.Fail("C05.harness", "reissue", "%v", err)
				return
			}
			form.Set("assertion", string(forged))
			captured = []byte(form.Encode())
		}
		fire = func() bool {
			code, body := p.as.CallForm("POST", "/oauth2/vendorA/token", string(captured))
			if os.Getenv("C05DEBUG") != "" {
				fmt.Println("TOKEN-ANSWER", code, trunc(strings.Join(strings.Fields(string(body)), " "), 1500))
			}
			return world.IsTokenResponse(code, body)
		}
	case "authorization-code", "request-object", "openid4vp-nonce":
		// The OpenID4VP user flow (RFC021 user access token) between the two nodes, the workload playing the
		// user's browser. The request that carries the one-time value is lost on the wire once, so that the value
		// is fresh; then it is delivered: concurrently, later again, and - for the code - after a failed attempt.
		roHost := []string{"nodeb.sim", "nodea.sim"}[s.D.Decide("which-request-object", 2)]
		target := map[string]func(req *http.Request) bool{
			"authorization-code": func(req *http.Request) bool {
				return req.Method == "POST" && strings.HasSuffix(req.URL.Path, "/oauth2/vendorA/token")
			},
			"request-object": func(req *http.Request) bool {
				return req.Method == "GET" && strings.Contains(req.URL.Path, "/request.jwt/") && req.URL.Host == roHost
			},
			"openid4vp-nonce": func(req *http.Request) bool {
				return req.Method == "POST" && strings.HasSuffix(req.URL.Path, "/oauth2/vendorA/response")
			},
		}[kind]
		p.w.HTTP.KeepBodies = true
		lost := false
		p.w.HTTP.LoseIf = func(req *http.Request) bool {
			if !lost && target(req) {
				lost = true
				return true
			}
			return false
		}
		code, body := p.cl.Call("POST", "/internal/auth/v2/vendorB/request-user-access-token", map[string]interface{}{
			"authorization_server": p.asServer, "scope": "simple", "redirect_uri": "https://app.sim/callback",
			"preauthorized_user": map[string]string{"id": "1", "name": "John Doe", "role": "Janitor"}})
		var start struct {
			RedirectURI string `json:"redirect_uri"`
		}
		_ = json.Unmarshal(body, &start)
		if code != 200 || start.RedirectURI == "" {
			s.Fail("C05.harness", "user-flow", "request-user-access-token: %d %s", code, body)
			return
		}
		p.w.Browse(start.RedirectURI, map[string][]*http.Cookie{}, 10)
		p.w.HTTP.LoseIf = nil
		var rec *seams.HTTPRecord
		for _, r := range p.w.HTTP.Requests() {
			if r.Fault == seams.HTTPReqLost {
				r := r
				rec = &r
			}
		}
		if rec == nil {
			s.Fail("C05.harness", "capture", "the %s request did not occur in the user flow", kind)
			return
		}
		honoured := func(code int, body []byte) bool {
			switch kind {
			case "authorization-code":
				return world.IsTokenResponse(code, body)
			case "request-object":
				return code == 200 && strings.Count(string(body), ".") == 2
			default:
				return code == 200 && strings.Contains(string(body), "redirect_uri") && strings.Contains(string(body), "code=")
			}
		}
		if kind == "authorization-code" && s.D.Decide("failed-attempt-first", 3) == 2 {
			// "an authorization code is also dead after any failed redemption attempt"
			bad := *rec
			form, _ := url.ParseQuery(string(rec.ReqBody))
			switch s.D.Decide("failed-attempt-kind", 3) {
			case 0:
				form.Set("code_verifier", "wrong-"+form.Get("code_verifier"))
			case 1:
				form.Set("client_id", "https://someone-else.sim/oauth2/x")
			default:
				form.Del("code_verifier")
			}
			bad.ReqBody = []byte(form.Encode())
			if c, b := p.w.Redeliver(bad); honoured(c, b) {
				s.Fail("C05.once.authorization-code", "wrong-verifier-honoured", "a token request with a wrong client id / PKCE verifier was honoured")
				return
			}
			sample.Kind = "authorization-code (after a failed redemption attempt)"
			if c, b := p.w.Redeliver(*rec); honoured(c, b) {
				s.Fail("C05.once.authorization-code", "alive-after-failed-attempt", "an authorization code was honoured after a failed redemption attempt with it")
				return
			}
			s.Info.Inc("code-dead-after-failed-attempt")
			rc.Nontrivial = true
			return
		}
		fire = func() bool {
			c, b := p.w.Redeliver(*rec)
			if os.Getenv("C05DEBUG") != "" {
				fmt.Println("REDELIVER", kind, c, trunc(strings.Join(strings.Fields(string(b)), " "), 300))
			}
			return honoured(c, b)
		}
	case "dpop-jti":
		tr := p.cl.RequestServiceToken("vendorB", p.asServer, "simple", "", true)
		if tr.Code != 200 || tr.DPoPKid == "" {
			s.Fail("C05.harness", "token", "no DPoP token: %d %s", tr.Code, tr.Body)
			return
		}
		code, body := p.cl.Call("POST", "/internal/auth/v2/dpop/"+strings.ReplaceAll(tr.DPoPKid, "#", "%23"), map[string]string{"htm": "GET", "htu": "https://nodea.sim/resource", "token": tr.AccessToken})
		var dp struct {
			Dpop string `json:"dpop"`
		}
		_ = json.Unmarshal(body, &dp)
		if code != 200 || dp.Dpop == "" {
			s.Fail("C05.harness", "dpop", "no DPoP proof: %d %s", code, body)
			return
		}
		_, intro := p.as.Introspect(tr.AccessToken)
		jkt := ""
		if cnf, ok := intro["cnf"].(map[string]interface{}); ok {
			jkt, _ = cnf["jkt"].(string)
		}
		req := map[string]string{"dpop_proof": dp.Dpop, "method": "GET", "thumbprint": jkt, "token": tr.AccessToken, "url": "https://nodea.sim/resource"}
		fire = func() bool {
			code, body := p.as.Call("POST", "/internal/auth/v2/dpop/validate", req)
			var v struct {
				Valid bool `json:"valid"`
			}
			_ = json.Unmarshal(body, &v)
			return code == 200 && v.Valid
		}
	}

	// ---- concurrent presentation ----
	var opsMu sync.Mutex
	var ops []string
	p.as.Session.OnOp = func(kind, key string, found bool) {
		opsMu.Lock()
		ops = append(ops, fmt.Sprintf("%s:%s:%v", s.Label(), kind, found))
		opsMu.Unlock()
	}
	p.cl.Session.OnOp = p.as.Session.OnOp
	var successes atomic.Int32
	var running atomic.Int32
	s.Enable(true)
	for i := 0; i < k; i++ {
		running.Add(1)
		s.Go(fmt.Sprintf("req%d", i), func() {
			defer running.Add(-1)
			if fire() {
				successes.Add(1)
			}
		})
	}
	s.RunUntil(func() bool { return running.Load() == 0 }, time.Minute, 100*time.Millisecond)
	s.Enable(false)
	p.as.Session.OnOp = nil
	p.cl.Session.OnOp = nil
	sample.Successes = int(successes.Load())
	sample.Interleave = strings.Join(ops, " ")
	rc.Signature = kind + "|" + sample.Interleave
	s.Info.Inc("secrets-presented")
	if successes.Load() == 0 {
		s.Info.Inc("no-request-succeeded")
	}
	if successes.Load() > 1 {
		s.Fail("C05.once."+kind, "concurrent", "%d of %d concurrent requests presenting the same %s were honoured (store operations: %s)", successes.Load(), k, kind, sample.Interleave)
		return
	}
	// ---- sequential replays: at once, later within the window, after the window ----
	// (the waits add up: +0, +2, +4, +6, +8, +11, +21 s, +14 min, +16 min, +36 min: inside the presentation's validity, inside the
	// clock-skew allowance after it, around the expiry of the stored nonce / jti, and long after)
	// some replays meet a session store whose reads fail (a shared store that cannot be reached): a value that cannot be
	// looked up must not count as unused
	if s.D.Decide("store-read-faults-during-replays", 3) == 2 {
		f := p.w.F
		f.Rates[seams.SessionGetErr] = 500
		p.as.Session.F, p.cl.Session.F = f, f
		f.Arm(true)
		defer f.Arm(false)
	}
	waits := []time.Duration{0, 2 * time.Second, 2 * time.Second, 2 * time.Second, 2 * time.Second, 3 * time.Second, 10 * time.Second, 14 * time.Minute, 2 * time.Minute, 20 * time.Minute}
	if futureDated || s.D.Decide("patient-replay", 3) == 1 {
		// a refused replay stores the nonce / jti again, which renews its lifetime: a patient replayer waits instead, and
		// comes back once, at a seeded moment around the end of the stored value's lifetime and of the validity window
		first := 9500*time.Millisecond + time.Duration(s.D.Decide("patient-wait-500ms", 14))*500*time.Millisecond
		waits = []time.Duration{first, 2 * time.Second, 15 * time.Minute, 20 * time.Minute}
	}
	for _, wait := range waits {
		if wait > 0 {
			s.Advance(wait)
		}
		ok := fire()
		sample.LaterReplay = append(sample.LaterReplay, fmt.Sprintf("+%v:%v", wait, ok))
		if ok && successes.Load() >= 1 {
			s.Fail("C05.once."+kind, "sequential", "a %s that was already honoured was honoured again in a sequential replay %v later", kind, wait)
			return
		}
		if ok {
			successes.Add(1)
		}
	}
	rc.Nontrivial = len(ops) > 0
}
