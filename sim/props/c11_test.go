package props

import (
	"bytes"
	"compress/gzip"
	"encoding/base64"
	"encoding/json"
	"fmt"
	"io"
	"net/http"
	"net/url"
	"sort"
	"strconv"
	"strings"
	"sync"
	"sync/atomic"
	"testing"
	"time"

	"verifsim/seams"
	"verifsim/simkit"
	"verifsim/world"
)

// C11 — revocation is effective, permanent and issuer-only; status-list slots are unique.
//
// World B: an issuer node with two did:web issuers (SQL seam: its transactions are scheduling
// points) and a verifier node. Tasks issue credentials with status-list entries, revoke them,
// fetch the served lists and verify credentials on the other node, concurrently and over
// virtual time (cache age 15 min, re-issue margin, 24 h expiry), with the issuer unreachable
// at times and HTTP faults on list download, starting a few slots before the page end.
// Oracle: reference bit sets per list, built from the acknowledged operations.

func TestC11(t *testing.T) {
	simkit.Main(t, simkit.Spec{Property: "C11", World: "B/2nodes", Body: c11Body, MaxStepsPerRun: 80000})
}

type c11Cred struct {
	ID       string
	JSON     []byte
	Issuer   int
	List     string
	Index    int
	RevStart int // step at which Revoke was called (0: never)
	RevAck   int // step at which Revoke returned OK (0: not yet)
	RevAckAt time.Duration
}

type c11Sample struct {
	Issued     int      `json:"credentials_issued"`
	Revoked    int      `json:"revoked"`
	Lists      []string `json:"lists"`
	Verifies   int      `json:"verifications"`
	Served     int      `json:"lists_fetched"`
	Rollover   bool     `json:"started_near_page_end"`
	FaultKinds []string `json:"fault_kinds_enabled,omitempty"`
	Ops        []string `json:"operations"`
}

func decodeList(encoded string) ([]byte, error) {
	enc := base64.RawURLEncoding
	if len(encoded)%4 == 0 {
		enc = base64.URLEncoding
	}
	comp, err := enc.DecodeString(encoded)
	if err != nil {
		return nil, err
	}
	zr, err := gzip.NewReader(bytes.NewReader(comp))
	if err != nil {
		return nil, err
	}
	return io.ReadAll(zr)
}

func bitSet(bits []byte, i int) bool {
	if i/8 >= len(bits) {
		return false
	}
	return bits[i/8]>>(7-uint(i%8))&1 == 1
}

type listDoc struct {
	ID                string `json:"id"`
	Issuer            string `json:"issuer"`
	ExpirationDate    string `json:"expirationDate"`
	CredentialSubject json.RawMessage
}

func parseListCredential(body []byte) (id string, bits []byte, exp time.Time, err error) {
	var doc map[string]interface{}
	if err = json.Unmarshal(body, &doc); err != nil {
		return
	}
	cs := doc["credentialSubject"]
	if arr, ok := cs.([]interface{}); ok && len(arr) > 0 {
		cs = arr[0]
	}
	m, _ := cs.(map[string]interface{})
	if m == nil {
		err = fmt.Errorf("no credentialSubject")
		return
	}
	id, _ = m["id"].(string)
	el, _ := m["encodedList"].(string)
	bits, err = decodeList(el)
	if err != nil {
		return
	}
	if e, ok := doc["expirationDate"].(string); ok {
		exp, _ = time.Parse(time.RFC3339, e)
	}
	return
}

func c11Body(s *simkit.Sim, rc *simkit.RunCtx) {
	// one run in four plays the did:nuts network world (revocations as signed network documents): c11net_test.go
	if s.D.Decide("c11 world", 4) == 3 {
		c11NetBody(s, rc)
		return
	}
	sample := &c11Sample{}
	rc.Sample = sample
	w := world.New(s, rc)
	defer w.Shutdown()
	w.LogHook.Keep = debugGaps
	iss, err := w.StartNode(world.NodeOpts{Name: "nodeb", DIDMethods: "web", Web: true, SimSQL: true})
	if err != nil {
		s.Fail("C11.harness", "start", "%v", err)
		return
	}
	verOpts := world.NodeOpts{Name: "nodea", DIDMethods: "web", Web: true}
	if debugGaps {
		verOpts.Env = map[string]string{"NUTS_VERBOSITY": "debug"}
	}
	ver, err := w.StartNode(verOpts)
	if err != nil {
		s.Fail("C11.harness", "start", "%v", err)
		return
	}
	var issuers []string
	for _, name := range []string{"issX", "issY"} {
		d, err := iss.CreateSubject(name)
		if err != nil {
			s.Fail("C11.harness", "subject", "%v", err)
			return
		}
		issuers = append(issuers, d[0])
	}
	var mu sync.Mutex
	var creds []*c11Cred
	// the verifier's knowledge: bits it has seen set in a downloaded list, with the step of the download
	known := map[string]map[int]int{}
	seenServed := map[string]map[int]bool{} // bits ever seen set in any served version (never cleared)
	pending := map[string][][2]string{}
	w.HTTP.KeepBodies = true
	w.HTTP.Observe = func(rec *seams.HTTPRecord) {
		if rec.Method != "GET" || !strings.Contains(rec.Path, "/statuslist/") || rec.Status != 200 || rec.Fault != "" {
			return
		}
		id, bits, _, err := parseListCredential(rec.RespBody)
		if err != nil {
			return
		}
		// an answer that is another list than the one asked for (hostile server, see list-swap below) is not a list the node received
		if a, _ := url.PathUnescape(id); a != mustUnescape(rec.URL) {
			return
		}
		mu.Lock()
		defer mu.Unlock()
		// the node knows a downloaded list once the operation that downloaded it has finished
		// checking and storing it; until then it is in flight
		for _, c := range creds {
			if c.List == id && bitSet(bits, c.Index) {
				pending[rec.From] = append(pending[rec.From], [2]string{id, strconv.Itoa(c.Index)})
			}
		}
	}
	promote := func(label string) {
		// caller holds mu
		for _, p := range pending[label] {
			idx, _ := strconv.Atoi(p[1])
			if known[p[0]] == nil {
				known[p[0]] = map[int]int{}
			}
			if _, ok := known[p[0]][idx]; !ok {
				known[p[0]][idx] = s.Steps
			}
		}
		delete(pending, label)
	}

	issue := func(issuer int) *c11Cred {
		body, id, err := iss.IssueOrgCredential(issuers[issuer], "did:web:holder.sim", fmt.Sprintf("Org %d", len(creds)), "Town", true, "")
		if err != nil {
			return nil
		}
		var doc struct {
			CredentialStatus json.RawMessage `json:"credentialStatus"`
		}
		_ = json.Unmarshal(body, &doc)
		var st struct {
			StatusListCredential string `json:"statusListCredential"`
			StatusListIndex      string `json:"statusListIndex"`
		}
		raw := doc.CredentialStatus
		if len(raw) > 0 && raw[0] == '[' {
			var arr []json.RawMessage
			_ = json.Unmarshal(raw, &arr)
			if len(arr) > 0 {
				raw = arr[0]
			}
		}
		_ = json.Unmarshal(raw, &st)
		idx, _ := strconv.Atoi(st.StatusListIndex)
		c := &c11Cred{ID: id, JSON: body, Issuer: issuer, List: st.StatusListCredential, Index: idx}
		mu.Lock()
		creds = append(creds, c)
		mu.Unlock()
		return c
	}

	// ---- start state: one credential per issuer, optionally a few slots before the page end ----
	for i := range issuers {
		if issue(i) == nil {
			s.Fail("C11.harness", "issue", "initial issuance failed")
			return
		}
	}
	if s.D.Decide("rollover", 3) == 2 {
		sample.Rollover = true
		db := iss.Storage.Real.GetSQLDatabase()
		left := 1 + s.D.Decide("slots-left", 4)
		if err := db.Exec("UPDATE status_list SET last_issued_index = ? WHERE issuer = ?", 131071-left, issuers[0]).Error; err != nil {
			s.Fail("C11.harness", "rollover", "%v", err)
			return
		}
	}

	// ---- faults on list download ----
	f := w.F
	if s.D.Decide("faultmode", 3) == 2 {
		for _, k := range []struct {
			k    string
			rate int
		}{{seams.HTTPReqLost, 150}, {seams.HTTPRespLost, 150}, {seams.HTTP5xx, 150}, {seams.HTTPDelay, 200}} {
			if s.D.Decide("enable "+k.k, 2) == 1 {
				f.Rates[k.k] = k.rate
				sample.FaultKinds = append(sample.FaultKinds, k.k)
			}
		}
		f.Filter = func(kind, site string) bool { return strings.Contains(site, "/statuslist/") }
	}
	// ---- hostile list server: a verification that asks for list U is answered with a validly signed, but other and older list V
	// (the first version of V that was ever served). The node must not take it for U, and must not take it for V either.
	verifying := map[string]bool{}
	if s.D.Decide("list-swap", 4) == 3 {
		sample.FaultKinds = append(sample.FaultKinds, "http.list-swapped")
		firstCopy := map[string][]byte{}
		var firstOrder []string
		w.HTTP.TamperResponse = func(req *http.Request, status int, body []byte) []byte {
			if req.Method != "GET" || status != 200 || !strings.Contains(req.URL.Path, "/statuslist/") {
				return body
			}
			asked := mustUnescape(req.URL.String())
			mu.Lock()
			if _, ok := firstCopy[asked]; !ok {
				firstCopy[asked] = body
				firstOrder = append(firstOrder, asked)
			}
			isVerify := verifying[s.Label()]
			var other []byte
			for _, u := range firstOrder {
				if u != asked {
					other = firstCopy[u]
				}
			}
			mu.Unlock()
			if !isVerify || other == nil || s.D.Decide("swap-this-answer", 4) != 0 {
				return body
			}
			s.Faults.Inc("http.list-swapped")
			return other
		}
	}
	// ---- storage faults inside revocations (the other operations of the workload are spared: their oracles assume a working issuer) ----
	revoking := map[string]bool{}
	if s.D.Decide("sql-faults-in-revoke", 3) == 2 {
		f.Rates[seams.SQLStmtErr] = 60
		f.Rates[seams.SQLCommitFail] = 100
		sample.FaultKinds = append(sample.FaultKinds, seams.SQLStmtErr, seams.SQLCommitFail)
		httpFilter := f.Filter
		f.Filter = func(kind, site string) bool {
			if strings.HasPrefix(kind, "sql.") {
				mu.Lock()
				defer mu.Unlock()
				return revoking[s.Label()]
			}
			return httpFilter == nil || httpFilter(kind, site)
		}
	}

	verify := func(c *c11Cred) (bool, string) {
		req := map[string]interface{}{"verifiableCredential": json.RawMessage(c.JSON)}
		code, body := ver.Call("POST", "/internal/vcr/v2/verifier/vc", req)
		var r struct {
			Validity bool    `json:"validity"`
			Message  *string `json:"message"`
		}
		_ = json.Unmarshal(body, &r)
		msg := ""
		if r.Message != nil {
			msg = *r.Message
		}
		if code != 200 {
			msg = fmt.Sprintf("HTTP %d %s", code, body)
		}
		return code == 200 && r.Validity, msg
	}
	type vop struct {
		label      string
		start, end int
	}
	var verifyOps []*vop
	checkVerify := func(c *c11Cred, startStep int, issuerUp bool, faultsBefore int) {
		op := &vop{label: s.Label(), start: s.Steps}
		mu.Lock()
		verifyOps = append(verifyOps, op)
		mu.Unlock()
		mu.Lock()
		verifying[op.label] = true
		mu.Unlock()
		ok, msg := verify(c)
		mu.Lock()
		delete(verifying, op.label)
		op.end = s.Steps
		promote(op.label)
		mu.Unlock()
		mu.Lock()
		knownAt, isKnown := known[c.List][c.Index]
		revStart := c.RevStart
		mu.Unlock()
		s.Info.Inc("verifications")
		if ok && isKnown && knownAt <= startStep && debugGaps {
			for _, r := range w.HTTP.Requests() {
				if strings.Contains(r.Path, "/statuslist/") {
					id, bits, exp, err := parseListCredential(r.RespBody)
					fmt.Printf("HTTPLOG done=%d step=%d at=%v from=%s status=%d fault=%q id=%s bit=%v exp=%v err=%v\n", r.DoneStep, r.Step, r.At, r.From, r.Status, r.Fault, id[len(id)-8:], bitSet(bits, c.Index), exp, err)
				}
			}
			for _, l := range w.LogHook.Lines {
				if strings.Contains(l, "StatusList") || strings.Contains(l, "tatus") {
					fmt.Println("LOG", l)
				}
			}
			fmt.Printf("CRED list=%s idx=%d revstart=%d revack=%d now=%v\n", c.List, c.Index, c.RevStart, c.RevAck, s.Now())
		}
		if ok && isKnown && knownAt <= startStep {
			site := "valid-after-known"
			// were there two downloads of this list in flight at the same time? (known finding: the
			// older answer may be stored after the newer one)
			var dl []seams.HTTPRecord
			for _, r := range w.HTTP.Requests() {
				if r.Status == 200 && r.Fault == "" && strings.Contains(r.Path, "/statuslist/") {
					if id, _, _, err := parseListCredential(r.RespBody); err == nil && id == c.List {
						dl = append(dl, r)
					}
				}
			}
			// a download belongs to the verification that made it; that verification stores the list
			// only after it has also checked the list's signature (more requests), so the window
			// of the race is the whole verification
			span := func(r seams.HTTPRecord) (int, int) {
				mu.Lock()
				defer mu.Unlock()
				for _, o := range verifyOps {
					if o.label == r.From && o.start <= r.Step && (o.end == 0 || r.Step <= o.end) {
						end := o.end
						if end == 0 {
							end = 1 << 30
						}
						return o.start, end
					}
				}
				return r.Step, r.DoneStep
			}
			for i := range dl {
				for j := i + 1; j < len(dl); j++ {
					a0, a1 := span(dl[i])
					b0, b1 := span(dl[j])
					if a0 <= b1 && b0 <= a1 {
						site = "valid-after-known:overlapping-downloads"
					}
				}
			}
			s.Fail("C11.effective", site, "credential %s verified as valid at step %d although the verifier downloaded a list with its bit %d set at step %d (issuer reachable: %v)", c.ID, s.Steps, c.Index, knownAt, issuerUp)
			return
		}
		if !ok && revStart == 0 && issuerUp && totalFaults(s) == faultsBefore {
			s.Fail("C11.served", "unrevoked-invalid", "credential %s was never revoked, its issuer is reachable, yet it does not verify on the other node: %s", c.ID, msg)
			return
		}
		if !ok && strings.Contains(msg, "revoked") && revStart == 0 {
			s.Fail("C11.issuer-only", "revoked-without-revocation", "credential %s is reported revoked although nobody revoked it: %s", c.ID, msg)
		}
	}
	fetch := func(c *c11Cred) {
		// a third party downloads the list the credential names
		req, _ := http.NewRequest("GET", c.List, nil)
		mu.Lock()
		var ackedBefore []int
		for _, o := range creds {
			if o.List == c.List && o.RevAck > 0 {
				ackedBefore = append(ackedBefore, o.Index)
			}
		}
		// bits seen in versions that had been served completely before this request began: a version made later has them
		// (two overlapping requests may be answered in the opposite order of their making)
		var servedBefore []int
		for i := range seenServed[c.List] {
			servedBefore = append(servedBefore, i)
		}
		mu.Unlock()
		req.URL.Host = "nodeb.sim"
		resp := iss.Serve(req)
		body, _ := io.ReadAll(resp.Body)
		s.Info.Inc("lists-fetched")
		if resp.StatusCode != 200 {
			s.Fail("C11.served", "status", "the issuer answered %d for the list %s that an issued credential names", resp.StatusCode, c.List)
			return
		}
		id, bits, exp, err := parseListCredential(body)
		if err != nil || id != c.List {
			s.Fail("C11.served", "content", "served list for %s is not that list (id %q, %v)", c.List, id, err)
			return
		}
		if exp.IsZero() || exp.Before(time.Now().Add(15*time.Minute)) {
			s.Fail("C11.served", "expiry", "served list %s expires at %v, now %v: about to expire", c.List, exp, time.Now())
			return
		}
		for _, i := range ackedBefore {
			if !bitSet(bits, i) {
				s.Fail("C11.served", "missing-bit", "served list %s lacks bit %d although that revocation was acknowledged before the request", c.List, i)
				return
			}
		}
		mu.Lock()
		if seenServed[id] == nil {
			seenServed[id] = map[int]bool{}
		}
		for _, i := range servedBefore {
			if !bitSet(bits, i) {
				mu.Unlock()
				s.Fail("C11.served", "bit-cleared", "served list %s no longer has bit %d set, which an earlier served version had", c.List, i)
				return
			}
		}
		started := map[int]bool{}
		for _, o := range creds {
			if o.List == id {
				if o.RevStart > 0 {
					started[o.Index] = true
				}
				if bitSet(bits, o.Index) {
					seenServed[id][o.Index] = true
				}
			}
		}
		// bits only for revocations somebody asked for
		for _, o := range creds {
			if o.List == id && bitSet(bits, o.Index) && !started[o.Index] {
				mu.Unlock()
				s.Fail("C11.issuer-only", "bit-without-revocation", "served list %s has bit %d set although that credential was never revoked", c.List, o.Index)
				return
			}
		}
		mu.Unlock()
		// the list is validly signed: the other node verifies it as a credential
		req2 := map[string]interface{}{"verifiableCredential": json.RawMessage(body)}
		code, vb := ver.Call("POST", "/internal/vcr/v2/verifier/vc", req2)
		var r struct {
			Validity bool    `json:"validity"`
			Message  *string `json:"message"`
		}
		_ = json.Unmarshal(vb, &r)
		if code != 200 || !r.Validity {
			m := ""
			if r.Message != nil {
				m = *r.Message
			}
			s.Fail("C11.served", "signature", "served list %s does not verify on the other node: %d %s", c.List, code, m)
		}
	}
	revoke := func(c *c11Cred) {
		mu.Lock()
		first := c.RevStart == 0
		if first {
			c.RevStart = s.Steps
		}
		mu.Unlock()
		mu.Lock()
		revoking[s.Label()] = true
		mu.Unlock()
		code, body := iss.Revoke(c.ID)
		mu.Lock()
		delete(revoking, s.Label())
		mu.Unlock()
		// 409: "already revoked" - the node asserts that the credential is revoked, which is as good as an acknowledgement
		if code == 204 || code == 200 || code == 409 {
			mu.Lock()
			if c.RevAck == 0 {
				c.RevAck = s.Steps
				c.RevAckAt = s.Now()
			}
			mu.Unlock()
			s.Info.Inc("revocations")
		} else if first && !strings.Contains(string(body), "sim:") {
			// a first revocation of an issued credential must succeed unless a fault was injected
			s.Info.Inc("revoke-failed")
			_ = body
		}
	}

	// ---- phases of concurrent operations separated by clock jumps ----
	s.Enable(true)
	f.Arm(true)
	phases := 2 + s.D.Decide("phases", 3)
	issuerUp := true
	for ph := 0; ph < phases && !s.Failed(); ph++ {
		var running atomic.Int32
		ntasks := 2 + s.D.Decide("tasks", 3)
		for ti := 0; ti < ntasks; ti++ {
			nops := 1 + s.D.Decide("ops", 4)
			var plan []string
			for k := 0; k < nops; k++ {
				plan = append(plan, []string{"issue", "issue", "revoke", "verify", "verify", "fetch"}[s.D.Decide("op", 6)])
			}
			sample.Ops = append(sample.Ops, fmt.Sprintf("phase%d task%d %v", ph, ti, plan))
			running.Add(1)
			label := fmt.Sprintf("p%dt%d", ph, ti)
			up := issuerUp
			s.Go(label, func() {
				defer running.Add(-1)
				for _, op := range plan {
					if s.Failed() {
						return
					}
					mu.Lock()
					var c *c11Cred
					if len(creds) > 0 {
						c = creds[s.D.Decide("pick "+label, len(creds))]
					}
					mu.Unlock()
					switch op {
					case "issue":
						if up {
							issue(s.D.Decide("issuer "+label, len(issuers)))
						}
					case "revoke":
						if c != nil && up {
							revoke(c)
						}
					case "verify":
						if c != nil {
							checkVerify(c, s.Steps, up, totalFaults(s))
						}
					case "fetch":
						if c != nil && up {
							fetch(c)
						}
					}
				}
			})
		}
		s.RunUntil(func() bool { return running.Load() == 0 }, 10*time.Minute, 200*time.Millisecond)
		if s.Failed() {
			return
		}
		// unique slots after every phase
		mu.Lock()
		slots := map[string]string{}
		for _, c := range creds {
			key := fmt.Sprintf("%s#%d", c.List, c.Index)
			if other, dup := slots[key]; dup {
				mu.Unlock()
				s.Fail("C11.unique-slot", "duplicate", "credentials %s and %s share status list position %s", other, c.ID, key)
				return
			}
			slots[key] = c.ID
			if unesc, _ := url.PathUnescape(c.List); !strings.HasPrefix(c.List, "https://nodeb.sim/statuslist/") || !strings.Contains(unesc, issuers[c.Issuer]) {
				mu.Unlock()
				s.Fail("C11.issuer-only", "foreign-list", "credential %s of issuer %s names list %s", c.ID, issuers[c.Issuer], c.List)
				return
			}
		}
		mu.Unlock()
		// clock jump / issuer outage between phases
		switch s.D.Decide("between", 5) {
		case 1:
			s.Advance(16 * time.Minute) // past the verifier's cache age
		case 2:
			s.Advance(19 * time.Hour) // inside the re-issue margin of the list
		case 3:
			s.Advance(25 * time.Hour) // past the list's expiry
		case 4:
			issuerUp = !issuerUp
			w.HTTP.Down["nodeb.sim"] = !issuerUp
			s.Faults.Inc("http.issuer-unreachable")
		}
	}
	f.Arm(false)
	if s.Failed() {
		return
	}
	// ---- closing: the verifier refreshes, then every revoked credential stays revoked ----
	w.HTTP.Down["nodeb.sim"] = false
	s.Advance(16 * time.Minute)
	mu.Lock()
	all := append([]*c11Cred(nil), creds...)
	mu.Unlock()
	sort.Slice(all, func(i, j int) bool { return all[i].ID < all[j].ID })
	for _, c := range all {
		ok, msg := verify(c)
		if c.RevAck > 0 && ok {
			s.Fail("C11.effective", "valid-after-refresh", "credential %s was revoked (acknowledged at %v) and still verifies as valid after the verifier refreshed the list at %v", c.ID, c.RevAckAt, s.Now())
			return
		}
		if c.RevStart == 0 && !ok {
			s.Fail("C11.served", "unrevoked-invalid", "credential %s was never revoked but does not verify after a refresh: %s", c.ID, msg)
			return
		}
	}
	// permanent: issuer gone, caches expired
	w.HTTP.Down["nodeb.sim"] = true
	s.Advance(26 * time.Hour)
	for _, c := range all {
		if c.RevAck > 0 {
			if ok, _ := verify(c); ok {
				s.Fail("C11.effective", "valid-when-issuer-gone", "revoked credential %s verifies as valid 26 h later with the issuer unreachable", c.ID)
				return
			}
		}
	}
	sample.Issued = len(all)
	lists := map[string]bool{}
	for _, c := range all {
		lists[c.List] = true
		if c.RevAck > 0 {
			sample.Revoked++
		}
	}
	for l := range lists {
		sample.Lists = append(sample.Lists, l)
	}
	sort.Strings(sample.Lists)
	sample.Verifies = s.Info.Get("verifications")
	sample.Served = s.Info.Get("lists-fetched")
	if len(lists) > len(issuers) {
		s.Probes.Inc("page-rolled-over")
	}
	rc.Nontrivial = len(all) > 2 && (s.NonFIFO > 0 || len(s.Faults.Map()) > 0)
}

func mustUnescape(u string) string {
	if x, err := url.PathUnescape(u); err == nil {
		return x
	}
	return u
}
