package props

import (
	"context"
	"errors"
	"fmt"
	"os"
	"sort"
	"sync"
	"sync/atomic"
	"testing"
	"time"

	"github.com/nuts-foundation/nuts-node/crypto/hash"
	"github.com/nuts-foundation/nuts-node/jsonld"
	"github.com/nuts-foundation/nuts-node/network"
	"github.com/nuts-foundation/nuts-node/network/dag"
	"verifsim/seams"
	"verifsim/simkit"
	"verifsim/world"
)

// C14 — admitted transactions reach every persistent subscriber at least once.
//
// World A, one real Network engine node. Scripted persistent subscribers (succeed; fail k
// times; report incomplete k times; fatal; never succeed) are registered through the real
// Network.Subscribe at every start, next to the notifiers the engine registers itself.
// Faults: every crash point of the KV seam (before commit, after commit before the
// notification, between the AfterCommit hooks, before the completion is written), KV errors,
// and restarts at arbitrary scheduler steps. Oracle: the delivery ledger against the DAG and
// the committed job-shelf operations.

func TestC14(t *testing.T) {
	simkit.Main(t, simkit.Spec{Property: "C14", World: "A/1node", Body: c14Body, Enumerate: envEnum(), MaxStepsPerRun: 80000})
}

type subScript struct {
	Name   string `json:"name"`
	EvType string `json:"event_type"`
	Mode   string `json:"mode"` // ok, flaky, incomplete, fatal, never
	K      int    `json:"k"`
	PType  string `json:"payload_type,omitempty"`
}

type delivery struct {
	Sub     string
	Ref     hash.SHA256Hash
	At      time.Duration
	Gen     int
	Retries int
	Result  string
	Boot    bool
	Step    int
}

type c14State struct {
	mu       sync.Mutex
	scripts  []subScript
	attempts map[string]map[hash.SHA256Hash]int
	// exempt: the subscriber answered this event with an "unknown JSON-LD context" error at least once. The start-up
	// replay deliberately skips events whose stored error is that one (issue #2569), so they are not judged for
	// replay and completion; every other event still is.
	exempt    map[string]map[hash.SHA256Hash]bool
	completed map[string]map[hash.SHA256Hash]int // sub -> ref -> step at which the job deletion committed
	calls     []delivery
	booting   bool
	pending   map[int]map[string][]hash.SHA256Hash // gen -> sub -> jobs present before Start
}

type c14Sample struct {
	Txs         int         `json:"transactions"`
	Subscribers []subScript `json:"subscribers"`
	FaultKinds  []string    `json:"fault_kinds_enabled,omitempty"`
	EnumPoint   string      `json:"enumerated_fault_point,omitempty"`
	Restarts    int         `json:"restarts"`
	Calls       int         `json:"receiver_calls"`
	Completed   int         `json:"completions_recorded"`
	FailedSeen  int         `json:"failed_events_visible"`
}

func (st *c14State) selects(sc subScript, tx dag.Transaction, hasPayload bool) bool {
	if sc.EvType == dag.PayloadEventType && !hasPayload {
		return false
	}
	return sc.PType == "" || tx.PayloadType() == sc.PType
}

func c14Body(s *simkit.Sim, rc *simkit.RunCtx) {
	h := newDagHarness(s, rc)
	defer h.finish()
	sample := &c14Sample{}
	rc.Sample = sample
	enum := rc.Plan != nil
	st := &c14State{attempts: map[string]map[hash.SHA256Hash]int{}, exempt: map[string]map[hash.SHA256Hash]bool{}, completed: map[string]map[hash.SHA256Hash]int{}, pending: map[int]map[string][]hash.SHA256Hash{}}

	// ---- subscribers of this run ----
	modes := []string{"ok", "flaky", "incomplete", "fatal", "never"}
	nsubs := 2 + s.D.Decide("subs", 3)
	if enum {
		nsubs = 2
	}
	for i := 0; i < nsubs; i++ {
		sc := subScript{Name: fmt.Sprintf("s%d", i), Mode: modes[s.D.Decide("sub-mode", len(modes))], K: 1 + s.D.Decide("sub-k", 4)}
		if i == 0 {
			sc.Mode = "ok"
		}
		sc.EvType = []string{dag.TransactionEventType, dag.PayloadEventType}[s.D.Decide("sub-evtype", 2)]
		if s.D.Decide("sub-ptype", 3) == 2 {
			sc.PType = "foo/bar"
		}
		st.scripts = append(st.scripts, sc)
		st.attempts[sc.Name] = map[hash.SHA256Hash]int{}
		st.exempt[sc.Name] = map[hash.SHA256Hash]bool{}
		st.completed[sc.Name] = map[hash.SHA256Hash]int{}
	}
	// "late recovery": one subscriber keeps failing beyond the point at which an event is shown as failed (10 retries)
	// and recovers within the retry budget (20); the node restarts in between (see below)
	lateRecovery := !enum && s.D.Decide("late-recovery", 4) == 3
	if lateRecovery {
		st.scripts[1].Mode = "flaky"
		st.scripts[1].K = 12 + s.D.Decide("late-k", 3)
	}
	// "budget edge": one subscriber never succeeds; the node restarts when an event has one attempt of its budget left
	budgetEdge := !enum && !lateRecovery && s.D.Decide("budget-edge", 4) == 3
	if budgetEdge {
		st.scripts[1].Mode = "never"
	}
	sample.Subscribers = st.scripts

	// completion = committed deletion of the job
	h.w.KVObserveOps = func(n *world.Node, store string, ops []seams.KVOp) {
		for _, op := range ops {
			if !op.Del {
				continue
			}
			for _, sc := range st.scripts {
				if op.Shelf == "_"+sc.Name+"_jobs" {
					st.mu.Lock()
					st.completed[sc.Name][hash.FromSlice(op.Key)] = s.Steps
					st.mu.Unlock()
				}
			}
		}
	}

	opts := h.nodeOpts()
	opts.BeforeStart = func(n *world.Node) {
		inc := n.Inc
		// jobs present before this start (Notifier.Run must replay them during Start)
		st.mu.Lock()
		st.pending[inc.Gen] = map[string][]hash.SHA256Hash{}
		st.booting = true
		st.mu.Unlock()
		for _, sc := range st.scripts {
			sc := sc
			var refs []hash.SHA256Hash
			for r := range jobRefs(n.DagKV(), sc.Name) {
				refs = append(refs, r)
			}
			st.mu.Lock()
			st.pending[inc.Gen][sc.Name] = refs
			st.mu.Unlock()
			recv := func(ev dag.Event) (bool, error) {
				if inc.Dead() {
					return false, seams.ErrCrashed
				}
				st.mu.Lock()
				defer st.mu.Unlock()
				d := delivery{Sub: sc.Name, Ref: ev.Hash, At: s.Now(), Gen: inc.Gen, Retries: ev.Retries, Boot: st.booting, Step: s.Steps}
				if ev.Type != sc.EvType {
					s.Fail("C14.admitted-only", "filter:"+sc.Mode, "subscriber %s (filter %s) received an event of type %s", sc.Name, sc.EvType, ev.Type)
				}
				if sc.PType != "" && ev.Transaction.PayloadType() != sc.PType {
					s.Fail("C14.admitted-only", "filter:"+sc.Mode, "subscriber %s (payload type %s) received payload type %s", sc.Name, sc.PType, ev.Transaction.PayloadType())
				}
				if at, done := st.completed[sc.Name][ev.Hash]; done {
					s.Fail("C14.no-redelivery", sc.Mode, "subscriber %s called for %s after its completion was recorded at step %d (now step %d, gen %d)", sc.Name, ev.Hash, at, s.Steps, inc.Gen)
				}
				// (the replay at start-up calls for every stored job once, whatever its count: only later calls are judged)
				if ev.Retries >= c14RetryBudget && !st.booting {
					s.Fail("C14.budget", sc.Mode, "subscriber %s called for %s although the %d attempts recorded for it already spent the retry budget of %d (gen %d)", sc.Name, ev.Hash, ev.Retries, c14RetryBudget, inc.Gen)
				}
				n := st.attempts[sc.Name][ev.Hash]
				st.attempts[sc.Name][ev.Hash] = n + 1
				var fin bool
				var err error
				switch sc.Mode {
				case "ok":
					fin = true
				case "flaky":
					if n < sc.K && ev.Hash[2]%6 == 0 {
						// what the VCR reports for a credential with a JSON-LD context that is not on the allow list
						err = fmt.Errorf("scripted failure: %w", jsonld.ContextURLNotAllowedErr)
						st.exempt[sc.Name][ev.Hash] = true
						s.Probes.Inc("subscriber-reported-unknown-context")
					} else if n < sc.K {
						// a recoverable failure, in the shapes subscribers produce them (the VCR's wraps context errors)
						switch (int(ev.Hash[1]) + n) % 4 {
						case 0:
							err = errors.New("scripted failure")
						case 1:
							err = fmt.Errorf("scripted failure: storage took too long: %w", context.Canceled)
						case 2:
							err = fmt.Errorf("scripted failure: %w", context.DeadlineExceeded)
						default:
							err = context.Canceled
						}
					} else {
						fin = true
					}
				case "incomplete":
					fin = n >= sc.K
				case "fatal":
					if n == 0 && ev.Hash[0]%2 == 0 {
						err = dag.EventFatal{Err: errors.New("scripted fatal")}
					} else {
						fin = true
					}
				case "never":
					err = errors.New("scripted permanent failure")
				}
				d.Result = fmt.Sprintf("%v/%v", fin, err)
				st.calls = append(st.calls, d)
				return fin, err
			}
			fopts := []network.SubscriberOption{n.Net.WithPersistency(), network.WithSelectionFilter(func(ev dag.Event) bool {
				return ev.Type == sc.EvType && (sc.PType == "" || ev.Transaction.PayloadType() == sc.PType)
			})}
			if err := n.Net.Subscribe(sc.Name, recv, fopts...); err != nil {
				panic(err)
			}
		}
	}
	start := func() *world.Node {
		n, err := h.w.StartNode(opts)
		if err != nil {
			panic(fmt.Sprintf("start: %v", err))
		}
		st.mu.Lock()
		st.booting = false
		pend := st.pending[n.Inc.Gen]
		st.mu.Unlock()
		// C14.replay-at-start: every stored job was retried while the node started
		for sub, refs := range pend {
			for _, r := range refs {
				found := false
				st.mu.Lock()
				for _, c := range st.calls {
					if c.Sub == sub && c.Ref == r && c.Gen == n.Inc.Gen && c.Boot {
						found = true
						break
					}
				}
				st.mu.Unlock()
				if !found && debugGaps {
					st.mu.Lock()
					for _, c := range st.calls {
						if c.Sub == sub && c.Ref == r {
							fmt.Printf("CALL %+v\n", c)
						}
					}
					fmt.Println("pending gens", len(st.pending), "gen", n.Inc.Gen)
					st.mu.Unlock()
				}
				st.mu.Lock()
				ex := st.exempt[sub][r]
				st.mu.Unlock()
				if !found && !ex {
					s.Fail("C14.replay-at-start", scriptMode(st, sub), "job of subscriber %s for %s was stored before start (gen %d) but not retried during start", sub, r, n.Inc.Gen)
				}
			}
		}
		return n
	}

	// ---- faults ----
	f := h.w.F
	rootRestarts := 0
	if enum {
		f.Enum = true
		f.Target = rc.Plan["target"]
		// only process stops are enumerated here (KV errors are C08's enumeration)
		f.Filter = func(kind, site string) bool { return len(kind) > 5 && kind[:5] == "crash" }
	} else {
		mode := s.D.Decide("faultmode", 4)
		for _, k := range []struct {
			k    string
			rate int
		}{{seams.KVOpErr, 10}, {seams.KVCommitFail, 25}, {seams.KVCrashBeforeCommit, 12}, {seams.KVCrashAfterCommit, 14}, {seams.KVCrashBetweenHooks, 14}, {seams.KVCrashBeforeTx, 8}, {seams.KVCtxCancel, 20}} {
			if mode != 0 && s.D.Decide("enable "+k.k, 2) == 1 {
				f.Rates[k.k] = k.rate
				sample.FaultKinds = append(sample.FaultKinds, k.k)
			}
		}
		f.MaxFaults = 5
		// storage errors are placed in the admission path only: the property's fault model for delivery is the
		// process stop and the subscriber's own behaviour (a failing job-shelf write ends a retry loop until the next start)
		f.Filter = func(kind, site string) bool {
			return !((kind == seams.KVOpErr || kind == seams.KVCommitFail) && containsAny(site, "_jobs"))
		}
		if mode != 0 {
			rootRestarts = s.D.Decide("root-restarts", 3)
		}
	}

	start()
	root := h.corpus.Root()
	if err := h.node().State().Add(context.Background(), root.Tx, root.Payload); err != nil {
		s.Fail("C14.harness", "root", "%v", err)
		return
	}
	size := 3 + s.D.Decide("size", 18)
	if enum {
		size = 2 + s.D.Decide("size", 5)
	}
	for i := 0; i < size; i++ {
		h.corpus.Extend("gen")
	}
	work := h.corpus.Valid[1:]
	sample.Txs = size

	restart := func() {
		for _, name := range h.w.TakeCrashed() {
			_ = name
			s.Probes.Inc("restart-after-crash")
			h.w.Stop(h.name, true)
			start()
		}
	}
	s.OnQuiesce = append(s.OnQuiesce, restart)
	if rootRestarts > 0 {
		every := 15 + s.D.Decide("root-restart-every", 60)
		s.OnQuiesce = append(s.OnQuiesce, func() {
			if rootRestarts > 0 && f.Armed && s.Steps > 0 && s.Steps%every == 0 && !h.node().Inc.Dead() {
				rootRestarts--
				s.Faults.Inc("crash.any-step")
				h.w.Stop(h.name, true)
				start()
			}
		})
	}
	s.Enable(true)
	f.Arm(true)
	var running atomic.Int32
	ntasks := 1 + s.D.Decide("tasks", 2)
	lists := make([][]*world.CTx, ntasks)
	for _, t := range work {
		a := s.D.Decide("assign", ntasks)
		lists[a] = append(lists[a], t)
	}
	for ti := range lists {
		ti := ti
		running.Add(1)
		s.Go(fmt.Sprintf("sub%d", ti), func() {
			defer running.Add(-1)
			queue := append([]*world.CTx(nil), lists[ti]...)
			retries := map[*world.CTx]int{}
			for len(queue) > 0 && !s.Failed() {
				t := queue[0]
				queue = queue[1:]
				o := h.offerTx(fmt.Sprintf("sub%d", ti), t)
				if o.Crashed {
					s.Yield("after-crash")
					queue = append(queue, t)
					continue
				}
				if o.Err != nil && retries[t] < 6 {
					retries[t]++
					queue = append(queue, t)
					if retries[t] > 2 {
						time.Sleep(time.Second)
					}
				}
			}
		})
	}
	s.RunUntil(func() bool { return running.Load() == 0 }, 30*time.Minute, time.Second)
	// retries run while faults may still hit
	s.Advance(time.Duration(20+s.D.Decide("faulty-tail", 200)) * time.Second)
	f.Arm(false)
	rootRestarts = 0
	s.Settle()
	restart()
	if enum {
		rc.PlanPoints = f.Count
		sample.EnumPoint = f.Fired
		rc.Signature = fmt.Sprintf("case%d/%s", rc.Run, f.Fired)
	}
	if s.Failed() {
		return
	}
	// A private transaction arrives without its payload; the payload arrives later, as from a participant answering a payload
	// query (State.WritePayload). Its content is new, or equal to the payload of an earlier transaction: the payload event of
	// THIS transaction is still owed to the subscribers.
	if !lateRecovery && !budgetEdge && !h.node().Inc.Dead() && s.D.Decide("late-private-payload", 3) == 2 {
		valid := h.corpus.Valid
		payload := []byte(fmt.Sprintf("late-private-payload-%d", rc.Run))
		how := "new-content"
		if s.D.Decide("late-payload-equals-earlier", 2) == 1 {
			for i := len(valid) - 1; i > 0; i-- {
				if valid[i].Payload != nil && !valid[i].Root {
					payload, how = valid[i].Payload, "content-of-earlier-transaction"
					break
				}
			}
		}
		// on top of a transaction the node has
		var top *world.CTx
		for i := len(valid) - 1; i >= 0 && top == nil; i-- {
			if ok, _ := h.node().State().IsPresent(context.Background(), valid[i].Ref); ok {
				top = valid[i]
			}
		}
		if top != nil {
			pal := dag.EncryptedPAL{[]byte("opaque-participant-list-entry-1"), []byte("opaque-participant-list-entry-2")}
			t := h.corpus.SignValid([]*world.CTx{top}, payload, []string{"foo/bar", "foo/baz"}[s.D.Decide("late-ptype", 2)], h.corpus.Keys[0], pal)
			var err1, err2 error
			s.Do("late-private-payload", time.Minute, func() {
				err1 = h.node().State().Add(context.Background(), t.Tx, nil)
				if err1 == nil {
					err2 = h.node().State().WritePayload(context.Background(), t.Tx, t.Tx.PayloadHash(), payload)
				}
			})
			if err1 != nil || err2 != nil {
				s.Fail("C14.harness", "late-private-payload", "Add: %v, WritePayload: %v", err1, err2)
				return
			}
			s.Probes.Inc("private-transaction-payload-written-later:" + how)
		}
	}
	// faults have stopped: let the retry schedules run (10 retries take about 17 virtual minutes)
	if lateRecovery {
		// stop and start between the 10th and the 11th retry; the attempt made while starting fails as well;
		// the rest of the budget must still be used
		s.Advance(time.Duration(19+s.D.Decide("late-restart-min", 12)) * time.Minute)
		s.Enable(false)
		h.w.Stop(h.name, s.D.Decide("late-restart-crash", 2) == 1)
		s.Enable(true)
		start()
		s.Probes.Inc("restart-between-10th-and-20th-retry")
		s.Advance(24 * time.Hour)
	} else if budgetEdge {
		// the waits grow to a day: step through virtual time until an event of the failing subscriber has used all
		// attempts but one, restart there (the attempt made while starting is the last), then watch for more calls
		found := false
		for i := 0; i < 400 && !found && !s.Failed(); i++ {
			s.Advance(time.Hour)
			for _, nf := range h.node().Net.Subscribers() {
				if nf.Name() != st.scripts[1].Name {
					continue
				}
				evs, _ := nf.GetFailedEvents()
				for _, e := range evs {
					if e.Retries == c14RetryBudget-1 {
						found = true
					}
				}
			}
		}
		if found {
			s.Enable(false)
			h.w.Stop(h.name, s.D.Decide("edge-restart-crash", 2) == 1)
			s.Enable(true)
			start()
			s.Probes.Inc("restart-with-one-attempt-left")
			s.Advance(72 * time.Hour)
		}
	} else {
		s.Advance(2 * time.Hour)
	}
	if s.Failed() {
		return
	}
	c14Final(s, h, st, sample, "before-last-restart")
	if s.Failed() {
		return
	}
	// one more restart: completed events stay silent, failed ones stay visible
	s.Enable(false)
	h.w.Stop(h.name, true)
	s.Enable(true)
	start()
	s.Advance(10 * time.Second)
	if s.Failed() {
		return
	}
	c14Final(s, h, st, sample, "after-last-restart")
	sample.Restarts = h.w.Gens[h.name] - 1
	sample.Calls = len(st.calls)
	for _, m := range st.completed {
		sample.Completed += len(m)
	}
	rc.Nontrivial = len(st.calls) > 0 && (s.NonFIFO > 0 || len(s.Faults.Map()) > 0)
}

// c14RetryBudget is the retry budget the property speaks of (attempts per event and subscriber).
const c14RetryBudget = 20

var debugGaps = os.Getenv("VERIF_DEBUG_GAPS") != ""

func scriptMode(st *c14State, sub string) string {
	for _, sc := range st.scripts {
		if sc.Name == sub {
			return sc.Mode
		}
	}
	return ""
}

func c14Final(s *simkit.Sim, h *dagHarness, st *c14State, sample *c14Sample, phase string) {
	stored, err := h.stored()
	if err != nil {
		s.Fail("C14.harness", "list", "%v", err)
		return
	}
	ctx := context.Background()
	n := h.node()
	st.mu.Lock()
	calls := append([]delivery(nil), st.calls...)
	st.mu.Unlock()
	// (a) no delivery for a transaction that is not in the DAG
	for _, c := range calls {
		if _, ok := stored[c.Ref]; !ok {
			s.Fail("C14.admitted-only", scriptMode(st, c.Sub), "subscriber %s was called for %s which is not in the DAG", c.Sub, c.Ref)
			return
		}
	}
	perSub := map[string]map[hash.SHA256Hash][]delivery{}
	for _, c := range calls {
		if perSub[c.Sub] == nil {
			perSub[c.Sub] = map[hash.SHA256Hash][]delivery{}
		}
		perSub[c.Sub][c.Ref] = append(perSub[c.Sub][c.Ref], c)
	}
	failedVisible := 0
	for _, sc := range st.scripts {
		var notifier dag.Notifier
		for _, nf := range n.Net.Subscribers() {
			if nf.Name() == sc.Name {
				notifier = nf
			}
		}
		failed := map[hash.SHA256Hash]dag.Event{}
		if notifier != nil {
			evs, _ := notifier.GetFailedEvents()
			for _, e := range evs {
				failed[e.Hash] = e
			}
		}
		failedVisible += len(failed)
		jobs := jobRefs(n.DagKV(), sc.Name)
		refs := make([]hash.SHA256Hash, 0, len(stored))
		for r := range stored {
			refs = append(refs, r)
		}
		sort.Slice(refs, func(i, j int) bool { return refs[i].Compare(refs[j]) < 0 })
		for _, ref := range refs {
			tx := stored[ref]
			hasPayload, _ := n.State().IsPayloadPresent(ctx, tx.PayloadHash())
			if !st.selects(sc, tx, hasPayload) {
				if len(perSub[sc.Name][ref]) > 0 {
					s.Fail("C14.admitted-only", "filter:"+sc.Mode, "subscriber %s was called for %s which its filter does not select", sc.Name, ref)
					return
				}
				continue
			}
			cs := perSub[sc.Name][ref]
			// (b) at least once
			if len(cs) == 0 {
				s.Fail("C14.at-least-once", sc.Mode, "%s: admitted %s event %s (selected by subscriber %s, mode %s) was never delivered; 2 virtual hours after faults stopped", phase, sc.EvType, ref, sc.Name, sc.Mode)
				return
			}
			_, done := st.completed[sc.Name][ref]
			if !done && st.exempt[sc.Name][ref] {
				continue // not replayed at start-up by design, see c14State.exempt
			}
			if !done && (sc.Mode == "ok" || sc.Mode == "flaky" || sc.Mode == "incomplete") {
				// subscribers that eventually succeed must have been completed by now
				s.Fail("C14.at-least-once", "complete:"+sc.Mode, "%s: subscriber %s (mode %s) would have completed %s but delivery stopped after %d calls", phase, sc.Name, sc.Mode, ref, len(cs))
				return
			}
			// (c) not completed => the job still exists, and is visible as failed once past the threshold
			if !done {
				if !jobs[ref] {
					s.Fail("C14.failed-visible", sc.Mode, "%s: event %s of subscriber %s was never completed but its job is gone", phase, ref, sc.Name)
					return
				}
				if _, vis := failed[ref]; !vis {
					s.Fail("C14.failed-visible", sc.Mode, "%s: event %s of subscriber %s (mode %s, %d calls) is not completed and not reported as failed 2 virtual hours after faults stopped", phase, ref, sc.Name, sc.Mode, len(cs))
					return
				}
			} else if jobs[ref] {
				s.Fail("C14.no-redelivery", sc.Mode, "%s: job of %s for %s exists although its deletion committed", phase, sc.Name, ref)
				return
			}
			// (e) growing delay within one incarnation
			byGen := map[int][]delivery{}
			for _, c := range cs {
				byGen[c.Gen] = append(byGen[c.Gen], c)
			}
			for g, gc := range byGen {
				var gaps []time.Duration
				for i := 1; i < len(gc); i++ {
					gaps = append(gaps, gc[i].At-gc[i-1].At)
				}
				if debugGaps && len(gaps) > 2 {
					fmt.Println("GAPS", sc.Mode, gaps)
				}
				// the first retry follows at once; after that every wait is longer than the one before (up to jitter of one base delay)
				for i := 2; i < len(gaps); i++ {
					if gaps[i-1] > 0 && gaps[i] < 12*time.Hour && gaps[i]+1500*time.Millisecond < gaps[i-1] {
						s.Fail("C14.backoff", sc.Mode, "retry waits of subscriber %s for %s in incarnation %d shrink: %v", sc.Name, ref, g, gaps)
						return
					}
				}
				if len(gaps) >= 4 && gaps[len(gaps)-1] <= gaps[1]+1500*time.Millisecond && gaps[1] > 0 {
					s.Fail("C14.backoff", sc.Mode, "retry waits of subscriber %s for %s in incarnation %d do not grow: %v", sc.Name, ref, g, gaps)
					return
				}
				// fatal: no further call in the same incarnation
				for i, c := range gc {
					if len(c.Result) > 6 && c.Result[:6] == "false/" && containsAny(c.Result, "scripted fatal") && i != len(gc)-1 {
						s.Fail("C14.at-least-once", "fatal-retried", "subscriber %s reported a fatal error for %s and was called again in the same incarnation", sc.Name, ref)
						return
					}
				}
			}
		}
		// jobs only for admitted transactions
		for ref := range jobs {
			if _, ok := stored[ref]; !ok {
				s.Fail("C14.admitted-only", "job:"+sc.Mode, "%s: subscriber %s has a stored job for %s which is not in the DAG", phase, sc.Name, ref)
				return
			}
		}
	}
	sample.FailedSeen = failedVisible
}
