package props

import (
	"encoding/base64"
	"encoding/json"
	"fmt"
	"io"
	"net/http"
	"net/url"
	"os"
	"sort"
	"strings"
	"sync"
	"sync/atomic"
	"testing"
	"time"

	"verifsim/seams"
	"verifsim/simkit"
	"verifsim/world"
)

// C16 — discovery lists hold only verified registrations and clients converge to them.
//
// World B: one discovery server node (SQL seam) and two client nodes that host the registering
// subjects; the real refresh/update loops run on the virtual clock. Operations: activate,
// deactivate (retraction), refresh as time passes, expiry by a stopped client, server reset
// (new seed), defective registrations posted by a scripted client, and a scripted poller that
// keeps asking the server for everything after its last timestamp while registrations commit
// (SQL statements of the server are scheduling points). HTTP faults: request lost, response
// lost, 5xx.

func TestC16(t *testing.T) {
	simkit.Main(t, simkit.Spec{Property: "C16", World: "B/3nodes", Body: c16Body, MaxStepsPerRun: 120000})
}

type c16Sample struct {
	RefreshS   int      `json:"client_refresh_interval_s"`
	Ops        []string `json:"operations"`
	FaultKinds []string `json:"fault_kinds_enabled,omitempty"`
	Polls      int      `json:"scripted_polls"`
	Defective  []string `json:"defective_registrations"`
	ServerLive int      `json:"server_live_registrations_at_end"`
	Reset      bool     `json:"server_reset"`
}

type jwtVP struct {
	Raw     string
	ID      string
	Signer  string
	Exp     time.Time
	Retract bool
	NCreds  int
}

func parseJWTVP(raw string) (*jwtVP, error) {
	parts := strings.Split(raw, ".")
	if len(parts) != 3 {
		return nil, fmt.Errorf("not a JWT")
	}
	b, err := base64.RawURLEncoding.DecodeString(parts[1])
	if err != nil {
		return nil, err
	}
	var c struct {
		Jti string  `json:"jti"`
		Iss string  `json:"iss"`
		Exp float64 `json:"exp"`
		VP  struct {
			Type                 interface{} `json:"type"`
			VerifiableCredential interface{} `json:"verifiableCredential"`
		} `json:"vp"`
	}
	if err := json.Unmarshal(b, &c); err != nil {
		return nil, err
	}
	nc := 0
	switch x := c.VP.VerifiableCredential.(type) {
	case []interface{}:
		nc = len(x)
	case nil:
	default:
		nc = 1
	}
	signer := c.Iss
	if hb, err := base64.RawURLEncoding.DecodeString(parts[0]); err == nil {
		var h struct {
			Kid string `json:"kid"`
		}
		if json.Unmarshal(hb, &h) == nil && h.Kid != "" {
			signer = strings.SplitN(h.Kid, "#", 2)[0]
		}
	}
	v := &jwtVP{Raw: raw, ID: c.Jti, Signer: signer, Exp: time.Unix(int64(c.Exp), 0), NCreds: nc}
	v.Retract = strings.Contains(fmt.Sprint(c.VP.Type), "RetractedVerifiablePresentation")
	return v, nil
}

type listAnswer struct {
	Seed      string            `json:"seed"`
	Entries   map[string]string `json:"entries"`
	Timestamp int               `json:"timestamp"`
}

func c16Body(s *simkit.Sim, rc *simkit.RunCtx) {
	sample := &c16Sample{}
	rc.Sample = sample
	w := world.New(s, rc)
	defer w.Shutdown()
	refresh := []int{30, 60, 120, 300}[s.D.Decide("refresh", 4)]
	sample.RefreshS = refresh
	cfg := fmt.Sprintf("discovery:\n  client:\n    refresh_interval: %ds\n", refresh)
	mk := func(name string, server bool) world.NodeOpts {
		return world.NodeOpts{Name: name, DIDMethods: "web", Web: true, DiscoveryHost: "nodea.sim", DiscoveryServer: server, ConfigYAML: cfg, SimSQL: server}
	}
	srv, err := w.StartNode(mk("nodea", true))
	if err != nil {
		s.Fail("C16.harness", "start", "%v", err)
		return
	}
	clients := map[string]*world.Node{}
	subjects := []struct{ node, subject, did string }{{"nodeb", "orgB1", ""}, {"nodeb", "orgB2", ""}, {"nodec", "orgC1", ""}}
	for _, name := range []string{"nodeb", "nodec"} {
		n, err := w.StartNode(mk(name, false))
		if err != nil {
			s.Fail("C16.harness", "start", "%v", err)
			return
		}
		clients[name] = n
	}
	for i := range subjects {
		n := clients[subjects[i].node]
		d, err := n.CreateSubject(subjects[i].subject)
		if err != nil {
			s.Fail("C16.harness", "subject", "%v", err)
			return
		}
		subjects[i].did = d[0]
		vc, _, err := n.IssueOrgCredential(d[0], d[0], "Org "+subjects[i].subject, "Town", false, "")
		if err != nil {
			s.Fail("C16.harness", "issue", "%v", err)
			return
		}
		if err := n.LoadIntoWallet(subjects[i].subject, vc); err != nil {
			s.Fail("C16.harness", "wallet", "%v", err)
			return
		}
	}
	_ = srv

	// ---- monitors on the server's answers ----
	var mu sync.Mutex
	validIDs := map[string]bool{} // presentation ids registered by the real clients (valid by construction)
	defectiveIDs := map[string]string{}
	regAt := map[string]time.Duration{}        // accepted by the server at (virtual time)
	supersededAt := map[string]time.Duration{} // known to have been replaced by a newer entry of the same subject by then
	var regs []c16Reg
	maxTS := 0
	serverList := func() (*listAnswer, error) {
		code, body := w.Nodes["nodea"].Call("GET", "/discovery/sim-svc?timestamp=0", nil)
		if code != 200 {
			return nil, fmt.Errorf("server list: %d %s", code, body)
		}
		var la listAnswer
		err := json.Unmarshal(body, &la)
		return &la, err
	}
	checkList := func(la *listAnswer, where string) {
		perSubject := map[string]string{}
		for ts, raw := range la.Entries {
			vp, err := parseJWTVP(raw)
			if err != nil {
				if debugGaps {
					fmt.Println("ENTRY", ts, raw[:min(len(raw), 300)], err)
				}
				s.Fail("C16.admission", "unparsable", "%s: entry %s of the server list is not a JWT presentation", where, ts)
				return
			}
			if other, dup := perSubject[vp.Signer]; dup {
				s.Fail("C16.timestamps", "two-entries", "%s: subject %s has two live entries (%s and %s)", where, vp.Signer, other, ts)
				return
			}
			perSubject[vp.Signer] = ts
			mu.Lock()
			kind, bad := defectiveIDs[vp.ID]
			mu.Unlock()
			if bad {
				s.Fail("C16.admission", "listed:"+kind, "%s: the server lists a presentation with defect %q", where, kind)
				return
			}
		}
	}
	w.HTTP.KeepBodies = true
	w.HTTP.Observe = func(rec *seams.HTTPRecord) {
		if rec.Host != "nodea.sim" || !strings.HasPrefix(rec.Path, "/discovery/") || (rec.Fault != "" && rec.Fault != seams.HTTPRespLost) {
			return // the handler did not run
		}
		if rec.Method == "POST" && (rec.Status == 201 || rec.Status == 200) {
			// a registration the server accepted: it comes from a real client unless it is one of ours
			var raw string
			if json.Unmarshal(rec.ReqBody, &raw) == nil {
				if vp, err := parseJWTVP(raw); err == nil {
					mu.Lock()
					if _, bad := defectiveIDs[vp.ID]; !bad {
						validIDs[vp.ID] = true
						regAt[vp.ID] = rec.At
						// Which of two registrations of one subject the server keeps is decided by the order in which it
						// applies them, not by the order in which the answers arrive: an entry is known to be gone only once
						// a registration of the same subject that began after this one had been answered was accepted.
						regs = append(regs, c16Reg{ID: vp.ID, Signer: vp.Signer, StartStep: rec.Step, DoneStep: rec.DoneStep, Done: s.Now()})
						for _, older := range regs {
							if older.Signer == vp.Signer && older.ID != vp.ID && older.DoneStep < rec.Step {
								if _, known := supersededAt[older.ID]; !known {
									supersededAt[older.ID] = s.Now()
								}
							}
						}
					}
					mu.Unlock()
				}
			}
		}
		if rec.Method == "GET" && rec.Status == 200 {
			var la listAnswer
			if json.Unmarshal(rec.RespBody, &la) == nil {
				mu.Lock()
				if la.Timestamp > maxTS {
					maxTS = la.Timestamp
				}
				mu.Unlock()
			}
		}
	}

	// ---- faults ----
	f := w.F
	if s.D.Decide("faultmode", 3) == 2 {
		for _, k := range []struct {
			k    string
			rate int
		}{{seams.HTTPReqLost, 100}, {seams.HTTPRespLost, 100}, {seams.HTTP5xx, 100}} {
			if s.D.Decide("enable "+k.k, 2) == 1 {
				f.Rates[k.k] = k.rate
				sample.FaultKinds = append(sample.FaultKinds, k.k)
			}
		}
		f.Filter = func(kind, site string) bool { return strings.Contains(site, "/discovery/") }
	}

	// ---- scripted continuing poller (C16.no-skip) ----
	type pollState struct {
		ts    int
		seed  string
		have  map[string]string // signer -> raw presentation
		polls int
	}
	ps := &pollState{have: map[string]string{}}
	polling := false
	poll := func() {
		if polling {
			return // one continuing client: its polls do not overlap
		}
		polling = true
		defer func() { polling = false }()
		req, _ := http.NewRequest("GET", fmt.Sprintf("https://nodea.sim/discovery/sim-svc?timestamp=%d", ps.ts), nil)
		resp, err := w.HTTP.RoundTrip(req)
		if err != nil || resp.StatusCode != 200 {
			return
		}
		var la listAnswer
		if json.NewDecoder(resp.Body).Decode(&la) != nil {
			return
		}
		ps.polls++
		if ps.seed != "" && la.Seed != ps.seed {
			ps.have = map[string]string{}
			ps.ts = 0
			ps.seed = la.Seed
			return // start over on the next poll
		}
		ps.seed = la.Seed
		var tss []int
		for ts := range la.Entries {
			var n int
			fmt.Sscan(ts, &n)
			tss = append(tss, n)
		}
		sort.Ints(tss)
		for _, n := range tss {
			if n <= ps.ts {
				s.Fail("C16.timestamps", "not-after", "asked for entries after %d, got timestamp %d", ps.ts, n)
				return
			}
			vp, err := parseJWTVP(la.Entries[fmt.Sprint(n)])
			if err == nil {
				ps.have[vp.Signer] = vp.Raw
			}
		}
		if la.Timestamp < ps.ts {
			s.Fail("C16.timestamps", "decreasing", "server timestamp went from %d to %d without a seed change", ps.ts, la.Timestamp)
			return
		}
		ps.ts = la.Timestamp
	}

	// ---- defective registrations by a scripted client ----
	defects := []string{"wrong-audience", "valid-too-long", "json-ld-format", "no-credentials", "surplus-credential", "retract-unknown", "retract-unknown-jti", "retract-foreign", "retract-foreign", "outlives-credential", "outlives-credential", "missing-credential", "control-valid"}
	postDefective := func(kind string) {
		sub := subjects[s.D.Decide("defect-subject", len(subjects))]
		n := clients[sub.node]
		// fetch the subject's wallet credentials
		code, body := n.Call("GET", "/internal/vcr/v2/holder/"+sub.subject+"/vc", nil)
		var wallet []json.RawMessage
		_ = json.Unmarshal(body, &wallet)
		if code != 200 || len(wallet) == 0 {
			return
		}
		// what a correct registration carries: the organization credential and the self-attested registration credential
		code, regCredBody := n.Call("POST", "/internal/vcr/v2/issuer/vc", map[string]interface{}{
			"@context":                     []string{"https://www.w3.org/2018/credentials/v1", "https://nuts.nl/credentials/v1"},
			"type":                         "DiscoveryRegistrationCredential",
			"issuer":                       sub.did,
			"withStatusList2021Revocation": false,
			"credentialSubject":            map[string]interface{}{"id": sub.did, "k": "v", "authServerURL": "https://" + sub.node + ".sim/oauth2/" + sub.subject},
		})
		if code != 200 {
			if debugGaps {
				fmt.Println("REGCRED", code, string(regCredBody))
			}
			s.Info.Inc("scripted-registration-credential-not-issued")
			return
		}
		regCred := json.RawMessage(regCredBody)
		req := map[string]interface{}{"signerDID": sub.did, "format": "jwt_vp", "domain": "sim-svc",
			"expires": time.Now().Add(30 * time.Minute).UTC().Format(time.RFC3339), "verifiableCredentials": []json.RawMessage{wallet[0], regCred}}
		switch kind {
		case "wrong-audience":
			req["domain"] = "another-service"
		case "valid-too-long":
			req["expires"] = time.Now().Add(3 * time.Hour).UTC().Format(time.RFC3339)
		case "json-ld-format":
			req["format"] = "ldp_vp"
		case "no-credentials":
			req["verifiableCredentials"] = []json.RawMessage{}
		case "surplus-credential":
			extra, _, err := n.IssueOrgCredential(sub.did, sub.did, "Extra", "Town", false, "")
			if err != nil {
				return
			}
			// a credential the definition does not ask for: another type
			extra2, _, err := issueOther(n, sub.did)
			if err != nil {
				_ = extra
				return
			}
			req["verifiableCredentials"] = []json.RawMessage{wallet[0], regCred, extra2}
		case "missing-credential":
			req["verifiableCredentials"] = []json.RawMessage{wallet[0]}
		case "outlives-credential":
			// the non-expiring registration credential first, then an organization credential that expires before the presentation
			short, err := issueExpiring(n, sub.did, time.Now().Add(10*time.Minute))
			if err != nil {
				return
			}
			req["verifiableCredentials"] = []json.RawMessage{regCred, short}
		}
		isRetraction := kind == "retract-unknown" || kind == "retract-unknown-jti" || kind == "retract-foreign"
		// a retraction that names the live entry of ANOTHER subject: fetch the server's list first
		victimJTI := ""
		if kind == "retract-foreign" {
			lr, _ := http.NewRequest("GET", "https://nodea.sim/discovery/sim-svc?timestamp=0", nil)
			if resp, err := w.HTTP.RoundTrip(lr); err == nil && resp.StatusCode == 200 {
				var la listAnswer
				if json.NewDecoder(resp.Body).Decode(&la) == nil {
					var keys []string
					for k := range la.Entries {
						keys = append(keys, k)
					}
					sort.Strings(keys)
					for _, k := range keys {
						if vp, err := parseJWTVP(la.Entries[k]); err == nil && !vp.Retract && vp.Signer != sub.did && vp.ID != "" && vp.Exp.After(time.Now().Add(time.Minute)) {
							victimJTI = vp.ID
						}
					}
				}
			}
			if victimJTI == "" {
				s.Info.Inc("retract-foreign:no-entry-of-another-subject-listed")
				return
			}
		}
		code, body = n.Call("POST", "/internal/vcr/v2/holder/vp", req)
		if code != 200 {
			if debugGaps {
				fmt.Println("CREATEVP", kind, code, string(body))
			}
			s.Info.Inc("scripted-vp-not-created:" + kind)
			return
		}
		var raw string
		if json.Unmarshal(body, &raw) != nil {
			raw = strings.Trim(string(body), "\"\n")
		}
		if isRetraction {
			// The wallet API does not make retractions; the subject's own key signs one (as its node's operator can), made from a
			// correct registration: no credentials, the retraction type, a fresh id, and retract_jti = nothing at all / an id nobody
			// registered / the id of the live entry of another subject.
			target := victimJTI
			if kind == "retract-unknown-jti" {
				target = sub.did + "#" + fmt.Sprintf("00000000-0000-4000-8000-%012d", s.D.Decide("unknown-jti", 1000))
			}
			raw2, err := n.ResignJWT(raw, func(claims map[string]interface{}) {
				if vp, ok := claims["vp"].(map[string]interface{}); ok {
					vp["type"] = []string{"VerifiablePresentation", "RetractedVerifiablePresentation"}
					delete(vp, "verifiableCredential")
				}
				claims["jti"] = sub.did + "#" + fmt.Sprintf("11111111-0000-4000-8000-%012d", s.D.Decide("retraction-jti", 100000))
				if kind != "retract-unknown" {
					claims["retract_jti"] = target
				}
			})
			if err != nil {
				s.Info.Inc("scripted-vp-not-created:" + kind)
				return
			}
			raw = raw2
			body, _ = json.Marshal(raw)
			s.Info.Inc("scripted-retraction-posted:" + kind)
		}
		id := ""
		if vp, err := parseJWTVP(raw); err == nil {
			id = vp.ID
		} else {
			id = "ld:" + fmt.Sprint(len(body))
		}
		if kind != "control-valid" {
			mu.Lock()
			defectiveIDs[id] = kind
			mu.Unlock()
		}
		sample.Defective = append(sample.Defective, kind)
		pr, _ := http.NewRequest("POST", "https://nodea.sim/discovery/sim-svc", strings.NewReader(string(body)))
		pr.Header.Set("Content-Type", "application/json")
		resp, err := w.HTTP.RoundTrip(pr)
		if kind == "control-valid" {
			// the same scripted registration without any defect: the server must take it (otherwise the defective ones prove nothing)
			if err == nil && (resp.StatusCode == 201 || resp.StatusCode == 200) {
				s.Info.Inc("control-registration-accepted")
			} else if err == nil && totalFaults(s) == 0 {
				rb := ""
				if resp != nil {
					b, _ := io.ReadAll(resp.Body)
					rb = string(b)
				}
				s.Fail("C16.admission", "rejected:control-valid", "the server rejected a scripted registration without defect: %d %s", resp.StatusCode, rb)
			}
			return
		}
		if err == nil && (resp.StatusCode == 201 || resp.StatusCode == 200) {
			s.Fail("C16.admission", "accepted:"+kind, "the server accepted a registration with defect %q", kind)
		}
	}

	// ---- workload ----
	s.Enable(true)
	f.Arm(true)
	active := map[string]bool{}
	phases := 2 + s.D.Decide("phases", 3)
	for ph := 0; ph < phases && !s.Failed(); ph++ {
		var running atomic.Int32
		ntasks := 2 + s.D.Decide("tasks", 2)
		for ti := 0; ti < ntasks; ti++ {
			nops := 1 + s.D.Decide("ops", 3)
			var plan []string
			for k := 0; k < nops; k++ {
				plan = append(plan, []string{"activate", "activate", "deactivate", "poll", "poll", "defective"}[s.D.Decide("op", 6)])
			}
			label := fmt.Sprintf("p%dt%d", ph, ti)
			sample.Ops = append(sample.Ops, label+" "+strings.Join(plan, ","))
			running.Add(1)
			s.Go(label, func() {
				defer running.Add(-1)
				for _, op := range plan {
					if s.Failed() {
						return
					}
					sub := subjects[s.D.Decide("subject "+label, len(subjects))]
					n := clients[sub.node]
					switch op {
					case "activate":
						code, _ := n.Call("POST", "/internal/discovery/v1/sim-svc/"+sub.subject, `{"registrationParameters":{"k":"v"}}`)
						mu.Lock()
						if code == 200 {
							active[sub.did] = true
						}
						mu.Unlock()
					case "deactivate":
						code, _ := n.Call("DELETE", "/internal/discovery/v1/sim-svc/"+sub.subject, nil)
						mu.Lock()
						if code == 200 || code == 204 {
							active[sub.did] = false
						}
						mu.Unlock()
					case "poll":
						poll()
					case "defective":
						k := defects[s.D.Decide("defect", len(defects))]
						if os.Getenv("VERIF_C16_KIND") != "" {
							k = os.Getenv("VERIF_C16_KIND")
						}
						postDefective(k)
					}
				}
			})
		}
		s.RunUntil(func() bool { return running.Load() == 0 }, 20*time.Minute, 200*time.Millisecond)
		if s.Failed() {
			return
		}
		if la, err := serverList(); err == nil {
			checkList(la, fmt.Sprintf("after phase %d", ph))
		}
		// time passes: refresh loops run, registrations get refreshed at 45% of their validity
		s.Advance(time.Duration(10+s.D.Decide("gap", 1700)) * time.Second)
	}
	f.Arm(false)
	if s.Failed() {
		return
	}
	// ---- the continuing poller ends up with exactly the server's list ----
	s.Settle()
	poll()
	poll()
	sample.Polls = ps.polls
	la, err := serverList()
	if err != nil {
		s.Fail("C16.harness", "list", "%v", err)
		return
	}
	checkList(la, "end")
	if s.Failed() {
		return
	}
	if ps.polls > 2 && ps.seed == la.Seed {
		want := map[string]string{}
		for _, raw := range la.Entries {
			if vp, err := parseJWTVP(raw); err == nil {
				want[vp.Signer] = vp.ID
			}
		}
		for signer, id := range want {
			got := ""
			if vp, err := parseJWTVP(ps.have[signer]); err == nil {
				got = vp.ID
			}
			if got != id {
				s.Fail("C16.no-skip", "continuing-poller", "a client that always continued from the returned timestamp holds %q for %s, the server lists %q (an entry was skipped)", got, signer, id)
				return
			}
		}
	}
	// ---- convergence of the real clients ----
	// Registrations are refreshed by their owners all the time, so the server's list keeps changing: a client
	// must hold every live registration that is older than two refresh intervals, and nothing that stopped being
	// live more than two refresh intervals ago.
	settle := time.Duration(2*refresh) * time.Second
	converged := func(where string, names []string) {
		la, err := serverList()
		if err != nil {
			s.Fail("C16.harness", "list", "%v", err)
			return
		}
		live := map[string]bool{}
		for _, raw := range la.Entries {
			if vp, err := parseJWTVP(raw); err == nil && !vp.Retract && vp.Exp.After(time.Now()) {
				live[vp.ID] = true
			}
		}
		sample.ServerLive = len(live)
		now := s.Now()
		for _, name := range names {
			got, err := searchIDs(clients[name], true)
			if err != nil {
				s.Fail("C16.harness", "search", "%v", err)
				return
			}
			mu.Lock()
			for id := range live {
				if at, ok := regAt[id]; ok && now-at > settle && !got[id] {
					mu.Unlock()
					s.Fail("C16.converge", "missing:"+where, "%s: search lacks live registration %s which the server accepted %v ago (refresh interval %d s); server lists %d, client returns %d", name, id, now-at, refresh, len(live), len(got))
					return
				}
			}
			for id := range got {
				if !validIDs[id] {
					mu.Unlock()
					s.Fail("C16.search", "never-accepted:"+where, "%s: search returns %s which the server never accepted", name, id)
					return
				}
				if !live[id] {
					at, ok := supersededAt[id]
					if !ok {
						// not known to be replaced: if a registration of the same subject overlapped with this one, the
						// server may have applied this one first - it is gone, since when is not known
						overlapped := false
						for _, x := range regs {
							if x.ID != id {
								continue
							}
							for _, y := range regs {
								if y.Signer == x.Signer && y.ID != x.ID && !(y.DoneStep < x.StartStep) && !(x.DoneStep < y.StartStep) {
									overlapped = true
								}
							}
						}
						if overlapped {
							s.Probes.Inc("overlapping-registrations-of-one-subject")
							continue
						}
					}
					if !ok || now-at > settle {
						if os.Getenv("C16DEBUG") != "" {
							fmt.Println("NOW", now, "settle", settle, "client", name, "stale id", id)
							db := clients[name].Storage.Real.GetSQLDatabase()
							var svc []map[string]interface{}
							db.Raw("SELECT id, seed, last_lamport_timestamp FROM discovery_service").Scan(&svc)
							fmt.Println("  CLIENT discovery_service", svc)
							var rows []map[string]interface{}
							db.Raw("SELECT presentation_id, lamport_timestamp, validated FROM discovery_presentation").Scan(&rows)
							for _, r := range rows {
								fmt.Println("  CLIENT row", r)
							}
							var srows []map[string]interface{}
							w.Nodes["nodea"].Storage.Real.GetSQLDatabase().Raw("SELECT presentation_id, lamport_timestamp FROM discovery_presentation").Scan(&srows)
							for _, r := range srows {
								fmt.Println("  SERVER row", r)
							}
							for k, v := range regAt {
								fmt.Println("  reg", k, "at", v, "supersededAt", supersededAt[k], "live", live[k], "got", got[k])
							}
							for _, r := range w.HTTP.Requests() {
								if strings.Contains(r.Path, "/discovery/") {
									desc := ""
									if r.Method == "GET" {
										var pr struct {
											Entries   map[string]string `json:"entries"`
											Timestamp int               `json:"timestamp"`
										}
										_ = json.Unmarshal(r.RespBody, &pr)
										desc = fmt.Sprintf("ts=%d", pr.Timestamp)
										for k, raw := range pr.Entries {
											if vp, err := parseJWTVP(raw); err == nil {
												desc += fmt.Sprintf(" [%s:%s]", k, vp.ID[len(vp.ID)-8:])
											}
										}
									} else {
										var raw string
										if json.Unmarshal(r.ReqBody, &raw) == nil {
											if vp, err := parseJWTVP(raw); err == nil {
												desc = "registers " + vp.ID[len(vp.ID)-8:]
											}
										}
									}
									fmt.Println("  http", r.At, r.Step, r.DoneStep, r.From, r.Method, r.URL[len(r.URL)-14:], r.Status, r.Fault, desc)
								}
							}
						}
						mu.Unlock()
						s.Fail("C16.converge", "stale:"+where, "%s: search returns %s which has not been a live registration on the server for more than two refresh intervals", name, id)
						return
					}
				}
			}
			mu.Unlock()
		}
	}
	s.Advance(time.Duration(5*refresh) * time.Second)
	converged("steady", []string{"nodeb", "nodec"})
	if s.Failed() {
		return
	}
	// ---- the server stops and starts again on the same database: list, seed and timestamps go on ----
	if s.D.Decide("server-restart-same-db", 3) == 2 {
		s.Enable(false)
		w.Stop("nodea", s.D.Decide("server-restart-crash", 2) == 1)
		_, rerr := w.StartNode(mk("nodea", true))
		s.Enable(true)
		if rerr != nil {
			s.Fail("C16.harness", "restart", "%v", rerr)
			return
		}
		s.Faults.Inc("server-restart-same-database")
		// registrations after the restart, and polls
		for _, sub := range []int{s.D.Decide("restart-reg", 3), s.D.Decide("restart-reg", 3)} {
			clients[subjects[sub].node].Call("POST", "/internal/discovery/v1/sim-svc/"+subjects[sub].subject, `{"registrationParameters":{"k":"after-restart"}}`)
			s.Advance(time.Duration(1+s.D.Decide("restart-gap", refresh)) * time.Second)
		}
		s.Advance(time.Duration(5*refresh) * time.Second)
		converged("after-server-restart", []string{"nodeb", "nodec"})
		if s.Failed() {
			return
		}
	}
	// ---- verification outage on a client: what it could not verify itself is not in its search results ----
	if s.D.Decide("verification-outage", 3) == 2 {
		// two subjects of nodeb register anew; from then on their DID documents cannot be fetched, so nodec's client
		// stores both entries unverified; then one of the two becomes reachable again
		subA, subB := subjects[0], subjects[1]
		pathOf := func(d string) string { return "/iam/" + d[strings.LastIndex(d, ":")+1:] + "/did.json" }
		mu.Lock()
		nBefore := len(regs)
		mu.Unlock()
		for _, sub := range []struct{ node, subject, did string }{subA, subB} {
			clients[sub.node].Call("POST", "/internal/discovery/v1/sim-svc/"+sub.subject, `{"registrationParameters":{"k":"outage"}}`)
		}
		newID := map[string]string{}
		mu.Lock()
		for _, r := range regs[nBefore:] {
			newID[r.Signer] = r.ID
		}
		mu.Unlock()
		if newID[subA.did] != "" && newID[subB.did] != "" {
			unreachable := map[string]bool{pathOf(subA.did): true, pathOf(subB.did): true}
			w.HTTP.LoseIf = func(req *http.Request) bool { return req.Method == "GET" && unreachable[req.URL.Path] }
			s.Faults.Inc("did-document-unreachable")
			s.Advance(time.Duration(refresh+5) * time.Second) // nodec polls and cannot verify either
			failing, healed := subA, subB
			if s.D.Decide("outage-which-heals", 2) == 1 {
				failing, healed = subB, subA
			}
			delete(unreachable, pathOf(healed.did))
			s.Advance(time.Duration(3*refresh) * time.Second) // background validation runs
			got, err := searchIDs(clients["nodec"], true)
			if err != nil {
				s.Fail("C16.harness", "search", "%v", err)
				return
			}
			if got[newID[failing.did]] {
				s.Fail("C16.search", "unverified-entry-returned", "nodec: search returns %s, which this client was never able to verify (the signer's DID document has been unreachable since before the entry was fetched)", newID[failing.did])
				return
			}
			if got[newID[healed.did]] {
				s.Probes.Inc("entry-validated-in-the-background-after-outage")
			}
			w.HTTP.LoseIf = nil
			s.Advance(time.Duration(3*refresh) * time.Second)
			converged("after-verification-outage", []string{"nodeb", "nodec"})
			if s.Failed() {
				return
			}
		}
	}
	// ---- server reset: new seed, clients start over ----
	if s.D.Decide("server-reset", 3) == 2 {
		sample.Reset = true
		w.Stop("nodea", true)
		os.Remove(w.RC.Dir + "/nodea/sqlite.db")
		if _, err := w.StartNode(mk("nodea", true)); err != nil {
			s.Fail("C16.harness", "restart", "%v", err)
			return
		}
		s.Faults.Inc("server-reset-new-seed")
		// one subject registers again on the fresh server
		sub := subjects[2]
		// everything the old server had accepted is gone
		mu.Lock()
		for id := range regAt {
			if _, ok := supersededAt[id]; !ok {
				supersededAt[id] = s.Now()
			}
		}
		mu.Unlock()
		clients[sub.node].Call("POST", "/internal/discovery/v1/sim-svc/"+sub.subject, `{"registrationParameters":{"k":"v"}}`)
		s.Advance(time.Duration(5*refresh) * time.Second)
		converged("after-seed-change", []string{"nodeb", "nodec"})
		if s.Failed() {
			return
		}
	}
	// ---- two subjects register presentations with the same id (a jti is unique per signer only): the client can verify
	// only one of them, the other must not show up in its search results ----
	if s.D.Decide("same-jti", 3) == 2 {
		s.Enable(false)
		subA, subB := subjects[0], subjects[1]
		nb := clients["nodeb"]
		pathOf := func(d string) string { return "/iam/" + d[strings.LastIndex(d, ":")+1:] + "/did.json" }
		scriptedVP := func(sub struct{ node, subject, did string }) string {
			code, body := nb.Call("GET", "/internal/vcr/v2/holder/"+sub.subject+"/vc", nil)
			var wallet []json.RawMessage
			_ = json.Unmarshal(body, &wallet)
			if code != 200 || len(wallet) == 0 {
				return ""
			}
			code, regCred := nb.Call("POST", "/internal/vcr/v2/issuer/vc", map[string]interface{}{
				"@context":                     []string{"https://www.w3.org/2018/credentials/v1", "https://nuts.nl/credentials/v1"},
				"type":                         "DiscoveryRegistrationCredential",
				"issuer":                       sub.did,
				"withStatusList2021Revocation": false,
				"credentialSubject":            map[string]interface{}{"id": sub.did, "k": "v", "authServerURL": "https://" + sub.node + ".sim/oauth2/" + sub.subject},
			})
			if code != 200 {
				return ""
			}
			code, body = nb.Call("POST", "/internal/vcr/v2/holder/vp", map[string]interface{}{"signerDID": sub.did, "format": "jwt_vp", "domain": "sim-svc",
				"expires": time.Now().Add(30 * time.Minute).UTC().Format(time.RFC3339), "verifiableCredentials": []json.RawMessage{wallet[0], json.RawMessage(regCred)}})
			if code != 200 {
				return ""
			}
			var raw string
			if json.Unmarshal(body, &raw) != nil {
				raw = strings.Trim(string(body), "\"\n")
			}
			return raw
		}
		register := func(raw string) bool {
			b, _ := json.Marshal(raw)
			pr, _ := http.NewRequest("POST", "https://nodea.sim/discovery/sim-svc", strings.NewReader(string(b)))
			pr.Header.Set("Content-Type", "application/json")
			resp, err := w.HTTP.RoundTrip(pr)
			return err == nil && (resp.StatusCode == 201 || resp.StatusCode == 200)
		}
		rawA, rawB := scriptedVP(subA), scriptedVP(subB)
		vpA, errA := parseJWTVP(rawA)
		if rawA != "" && rawB != "" && errA == nil {
			rawB2, err := nb.ResignJWT(rawB, func(c map[string]interface{}) { c["jti"] = vpA.ID })
			// subB's DID document can be fetched only while the server handles the registration; if a client polled the
			// list in that window (it cannot: no virtual time passes) nothing is judged
			var inRegister, polledDuring bool
			prevObserve := w.HTTP.Observe
			w.HTTP.Observe = func(rec *seams.HTTPRecord) {
				mu.Lock()
				if inRegister && rec.Method == "GET" && strings.HasPrefix(rec.Path, "/discovery/") {
					polledDuring = true
				}
				mu.Unlock()
				if prevObserve != nil {
					prevObserve(rec)
				}
			}
			w.HTTP.LoseIf = func(req *http.Request) bool {
				mu.Lock()
				defer mu.Unlock()
				return req.Method == "GET" && req.URL.Path == pathOf(subB.did) && !inRegister
			}
			mu.Lock()
			inRegister = true
			mu.Unlock()
			okB := err == nil && register(rawB2)
			mu.Lock()
			inRegister = false
			mu.Unlock()
			if okB {
				s.Faults.Inc("did-document-unreachable")
				s.Advance(time.Duration(refresh+5) * time.Second) // nodec fetches subB's entry and cannot verify it
				if register(rawA) {
					s.Advance(time.Duration(2*refresh+5) * time.Second) // nodec fetches subA's entry (same id) and verifies it
					res, err := searchResults(clients["nodec"])
					mu.Lock()
					pd := polledDuring
					mu.Unlock()
					if err == nil && !pd {
						seenA := false
						for _, r := range res {
							if r.Subject == subB.did {
								s.Fail("C16.search", "unverified-entry-returned:same-id", "nodec: search returns the entry of %s (presentation id %s), which this client was never able to verify: the signer's DID document has been unreachable since the presentation was registered; another subject's verified presentation has the same id", subB.did, vpA.ID)
								return
							}
							if r.Subject == subA.did {
								seenA = true
							}
						}
						if seenA {
							s.Probes.Inc("same-id-presentations-of-two-subjects")
						}
					}
				}
			}
			w.HTTP.LoseIf = nil
			w.HTTP.Observe = prevObserve
		}
		s.Enable(true)
	}
	// ---- expiry: clients stopped, nothing refreshes; after the validity nothing is returned ----
	if s.D.Decide("expiry", 2) == 1 {
		w.Stop("nodec", true)
		s.Advance(2 * time.Hour)
		got, _ := searchIDs(clients["nodeb"], false)
		for id, exp := range got {
			_ = id
			_ = exp
		}
		res, err := searchResults(clients["nodeb"])
		if err == nil {
			for _, r := range res {
				if vp, err := parseJWTVP(r.VP); err == nil && !vp.Exp.After(time.Now()) {
					s.Fail("C16.search", "expired", "search returns presentation %s that expired at %v (now %v)", vp.ID, vp.Exp, time.Now())
					return
				}
				if strings.HasPrefix(r.Subject, "did:web:nodec.sim") {
					s.Fail("C16.search", "expired-subject", "search returns a registration of a subject whose node stopped 2 hours ago (validity 1 hour)")
					return
				}
			}
		}
	}
	rc.Nontrivial = ps.polls > 0 || len(validIDs) > 0
}

type c16Reg struct {
	ID, Signer          string
	StartStep, DoneStep int
	Done                time.Duration
}

type searchRes struct {
	ID      string
	Subject string
	VP      string
}

func searchResults(n *world.Node) ([]searchRes, error) {
	code, body := n.Call("GET", "/internal/discovery/v1/sim-svc", nil)
	if code != 200 {
		return nil, fmt.Errorf("search: %d %s", code, body)
	}
	var arr []struct {
		ID      string          `json:"id"`
		Subject string          `json:"credential_subject_id"`
		VP      json.RawMessage `json:"vp"`
	}
	if err := json.Unmarshal(body, &arr); err != nil {
		return nil, err
	}
	var out []searchRes
	for _, a := range arr {
		raw := ""
		_ = json.Unmarshal(a.VP, &raw)
		out = append(out, searchRes{ID: a.ID, Subject: a.Subject, VP: raw})
	}
	return out, nil
}

func searchIDs(n *world.Node, _ bool) (map[string]bool, error) {
	res, err := searchResults(n)
	if err != nil {
		return nil, err
	}
	out := map[string]bool{}
	for _, r := range res {
		out[r.ID] = true
	}
	return out, nil
}

// issueOther issues a credential of a type the discovery definition does not ask for.
func issueOther(n *world.Node, did string) (json.RawMessage, string, error) {
	req := map[string]interface{}{
		"@context": []string{"https://www.w3.org/2018/credentials/v1", "https://nuts.nl/credentials/v1"},
		"type":     "NutsEmployeeCredential",
		"issuer":   did,
		"credentialSubject": map[string]interface{}{
			"id":     did,
			"member": map[string]interface{}{"identifier": "1", "member": map[string]string{"familyName": "Doe", "initials": "J"}, "roleName": "nurse", "type": "EmployeeRole"},
			"type":   "Organization",
		},
	}
	code, body := n.Call("POST", "/internal/vcr/v2/issuer/vc", req)
	if code != 200 {
		return nil, "", fmt.Errorf("issue other: %d %s", code, body)
	}
	return body, "", nil
}

var _ = url.PathEscape

// issueExpiring issues an organization credential with an expiration date.
func issueExpiring(n *world.Node, did string, exp time.Time) (json.RawMessage, error) {
	req := map[string]interface{}{
		"type":           "NutsOrganizationCredential",
		"issuer":         did,
		"expirationDate": exp.UTC().Format(time.RFC3339),
		"credentialSubject": map[string]interface{}{
			"id":           did,
			"organization": map[string]string{"name": "Short Lived", "city": "Town"},
		},
	}
	code, body := n.Call("POST", "/internal/vcr/v2/issuer/vc", req)
	if code != 200 {
		return nil, fmt.Errorf("issue expiring: %d %s", code, body)
	}
	return body, nil
}
