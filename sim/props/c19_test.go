package props

import (
	"bytes"
	"context"
	"crypto/sha256"
	"encoding/base64"
	"encoding/binary"
	"encoding/hex"
	"encoding/json"
	"fmt"
	"net/http"
	"os"
	"sort"
	"strings"
	"sync"
	"testing"
	"time"

	"github.com/lestrrat-go/jwx/v2/jwk"
	"github.com/nuts-foundation/go-did/did"
	"github.com/nuts-foundation/nuts-node/audit"
	"github.com/nuts-foundation/nuts-node/crypto/hash"
	"github.com/nuts-foundation/nuts-node/network"
	"github.com/nuts-foundation/nuts-node/network/dag"
	"github.com/nuts-foundation/nuts-node/network/dag/tree"
	v2 "github.com/nuts-foundation/nuts-node/network/transport/v2"
	"github.com/nuts-foundation/nuts-node/vdr/didnuts"
	"github.com/nuts-foundation/nuts-node/vdr/resolver"
	"verifsim/seams"
	"verifsim/simkit"
	"verifsim/world"
)

// C19 — untrusted input never crashes or hangs the node.
//
// Structure-aware mutants of valid instances are fed to a running node through the simulated
// transports, in the protocol states that histories reach:
//
//   arena "peer": a scripted peer on the simulated peer-to-peer transport sends hostile protocol
//   envelopes (every message kind; empty, short and over-long byte fields, extreme clocks and
//   ranges, truncated / corrupted / empty set-reconciliation filters, wrong and right conversation
//   ids captured from the node's own queries, paging numbers out of range), transactions whose
//   protected header has type-confused members under a valid signature, and valid transactions
//   that carry mutated DID documents (which reach the VDR through the notifier's background
//   goroutines), while the node has outstanding conversations and pending payload jobs.
//
//   arena "http": a corrupting link on the simulated HTTP transport mutates one or two exchanges
//   of a real two-node workload (metadata, presentation definition, token request and response,
//   did:web documents, status lists, discovery registration and lists) in either direction.
//
// Oracles: no panic (handlers that run on the caller's goroutine are guarded in-process; a panic
// on a goroutine the node spawned ends the worker process, which the driver confirms by
// re-running the run in a fresh process and reports with its seed); every operation ends within
// its virtual-time bound and the run within its wall-clock bound; what was rejected leaves the
// stored content unchanged; afterwards the node still serves a valid request.

func TestC19(t *testing.T) {
	simkit.Main(t, simkit.Spec{Property: "C19", World: "A+B", Body: c19Body, MaxStepsPerRun: 80000})
}

type c19Sample struct {
	Arena   string   `json:"arena"`
	Hostile []string `json:"hostile_inputs"`
	Answers []string `json:"answers,omitempty"`
}

func c19Body(s *simkit.Sim, rc *simkit.RunCtx) {
	sample := &c19Sample{}
	rc.Sample = sample
	if s.D.Decide("arena", 2) == 0 {
		sample.Arena = "peer"
		c19Peer(s, rc, sample)
	} else {
		sample.Arena = "http"
		c19HTTP(s, rc, sample)
	}
}

func panicSite(stack []byte) string {
	// first frame inside nuts-node below the panic machinery
	lines := strings.Split(string(stack), "\n")
	for i, l := range lines {
		if strings.HasPrefix(l, "github.com/nuts-foundation/nuts-node/") && i+1 < len(lines) {
			fn := l
			if j := strings.LastIndex(fn, "("); j > 0 {
				fn = fn[:j]
			}
			return strings.TrimPrefix(fn, "github.com/nuts-foundation/nuts-node/")
		}
	}
	return "unknown"
}

// ---------------------------------------------------------------------------------------
// arena "peer"
// ---------------------------------------------------------------------------------------

func c19Peer(s *simkit.Sim, rc *simkit.RunCtx, sample *c19Sample) {
	w := world.New(s, rc)
	defer w.Shutdown()
	ctx := context.Background()
	if os.Getenv("C19DEBUG") != "" {
		w.LogHook.Keep = true
		defer func() {
			for _, l := range w.LogHook.Lines {
				if !strings.HasPrefix(l, "debug") && !strings.HasPrefix(l, "trace") {
					fmt.Println("LOG", trunc(l, 300))
				}
			}
			fmt.Println("HOSTILE", sample.Hostile)
		}()
	}
	w.P2P.OnPanic = func(node, typ string, v interface{}, stack []byte) {
		s.Fail("C19.no-panic", panicSite(stack), "handling a %s envelope panicked on %s: %v\n%s", typ, node, v, stack)
	}
	gossip := func(c *network.Config) {
		c.ProtocolV2.GossipInterval = 500
		c.ProtocolV2.PayloadRetryDelay = 2 * time.Second
	}
	n1, err := w.StartNode(world.NodeOpts{Name: "n1", DIDMethods: "nuts", NetConfig: gossip})
	if err != nil {
		s.Fail("C19.harness", "start", "%v", err)
		return
	}
	corpus := world.NewCorpus("c19", s.D.Decide)
	root := corpus.Root()
	if err := n1.State().Add(ctx, root.Tx, root.Payload); err != nil {
		s.Fail("C19.harness", "root", "%v", err)
		return
	}
	chain := corpus.Chain(root, 3+s.D.Decide("chain", 4), "base")
	for _, t := range chain {
		if err := n1.State().Add(ctx, t.Tx, t.Payload); err != nil {
			s.Fail("C19.harness", "chain", "%v", err)
			return
		}
	}
	head := chain[len(chain)-1]
	// a valid DID on the DAG (so that updates of an existing document are reachable)
	didK := newC9Key()
	didKey := didK.priv
	kid, _ := didnuts.DIDKIDNamingFunc(didKey.Public())
	didID := did.MustParseDIDURL(kid).DID
	doc := didnuts.CreateDocument()
	doc.ID = didID
	vm := vmFor(didID, didK)
	doc.AddCapabilityInvocation(vm)
	doc.AddAssertionMethod(vm)
	docJSON, _ := json.Marshal(doc)
	createTx, err := corpus.SignWith([]hash.SHA256Hash{head.Ref}, head.LC+1, docJSON, didnuts.DIDDocumentType, didKey, "")
	if err != nil {
		s.Fail("C19.harness", "did", "%v", err)
		return
	}
	s.Enable(true)
	var addErr error
	s.Do("create-did", time.Minute, func() { addErr = n1.State().Add(ctx, createTx.Tx, createTx.Payload) })
	if addErr != nil {
		s.Fail("C19.harness", "did", "%v", addErr)
		return
	}
	head = createTx
	s.Advance(2 * time.Second)
	if _, _, err := n1.DIDs.Resolve(didID, nil); err != nil {
		s.Fail("C19.harness", "did", "the honest DID document was not taken up: %v", err)
		return
	}

	// the scripted peer
	byz := &seams.Endpoint{Name: "byz", PeerID: "peer-byz", Inc: &seams.Incarnation{Node: "byz", Gen: 1, S: s}}
	var mu sync.Mutex
	conv := map[string][]byte{} // last conversation id the node used, per query kind
	var stateLC uint32          // the clock the node named in its last State message
	var wantedRefs [][]byte
	byz.OnMessage = func(from *seams.Endpoint, c *seams.Conn, envelope interface{}) {
		e, ok := envelope.(*v2.Envelope)
		if !ok {
			return
		}
		mu.Lock()
		defer mu.Unlock()
		switch m := e.Message.(type) {
		case *v2.Envelope_State:
			conv["state"] = m.State.ConversationID
			stateLC = m.State.LC
		case *v2.Envelope_TransactionListQuery:
			conv["list"] = m.TransactionListQuery.ConversationID
			wantedRefs = m.TransactionListQuery.Refs
		case *v2.Envelope_TransactionRangeQuery:
			conv["range"] = m.TransactionRangeQuery.ConversationID
		case *v2.Envelope_TransactionPayloadQuery:
			conv["payload"] = m.TransactionPayloadQuery.ConversationID
		}
	}
	w.P2P.AddEndpoint(byz)
	w.P2P.Connect("n1", "byz", nil)
	s.Advance(time.Second)

	// What must stay as it was: the transactions and payloads the node had before the hostile
	// peer came, and the honest DID document unless the peer sent an update signed with the
	// DID's own key (the workload holds that key, so such an update may be a legitimate one).
	// Transactions the peer adds are not judged: a harmless mutation leaves a valid transaction.
	baseline := map[hash.SHA256Hash]bool{root.Ref: true, createTx.Ref: true}
	for _, t := range chain {
		baseline[t.Ref] = true
	}
	legit := map[hash.SHA256Hash]bool{}
	didUpdateSent := false
	digest := func() (string, int) {
		txs, err := n1.State().FindBetweenLC(ctx, 0, dag.MaxLamportClock)
		if err != nil {
			return "error: " + err.Error(), 0
		}
		var lines []string
		extra := 0
		for _, tx := range txs {
			if !baseline[tx.Ref()] {
				if legit[tx.Ref()] {
					extra++
				}
				continue
			}
			present, _ := n1.State().IsPayloadPresent(ctx, tx.PayloadHash())
			lines = append(lines, fmt.Sprintf("%s %v", tx.Ref(), present))
		}
		sort.Strings(lines)
		if !didUpdateSent {
			d, md, err := n1.DIDs.Resolve(didID, &resolver.ResolveMetadata{AllowDeactivated: true})
			if err == nil {
				b, _ := json.Marshal(d)
				lines = append(lines, fmt.Sprintf("did %x %s", sha256.Sum256(b), md.Hash))
			} else {
				lines = append(lines, "did "+err.Error())
			}
		}
		h := sha256.Sum256([]byte(strings.Join(lines, "\n")))
		return hex.EncodeToString(h[:]), extra
	}
	before, _ := digest()
	didUpdateSent = true
	beforeNoDID, _ := digest()
	didUpdateSent = false

	pickBytes := func(label string, valid []byte) []byte {
		switch s.D.Decide(label, 9) {
		case 0:
			return valid
		case 1:
			return nil
		case 2:
			return []byte{}
		case 3:
			return []byte{1, 2, 3}
		case 4:
			return bytes.Repeat([]byte{0xff}, 32)
		case 5:
			return bytes.Repeat([]byte{0}, 32)
		case 6:
			return bytes.Repeat([]byte{7}, 33)
		case 7:
			return bytes.Repeat([]byte{9}, 100000)
		default:
			if len(valid) > 1 {
				return valid[:len(valid)/2]
			}
			return []byte{0}
		}
	}
	pickU32 := func(label string, valid uint32) uint32 {
		return []uint32{valid, 0, 1, valid + 1, 511, 512, 513, 1 << 31, dag.MaxLamportClock, dag.MaxLamportClock - 1}[s.D.Decide(label, 10)]
	}
	_ = wantedRefs
	convFor := func(kind string) []byte {
		mu.Lock()
		defer mu.Unlock()
		return conv[kind]
	}
	// hostile transaction bytes
	hostileTx := func() ([]byte, []byte, string) {
		prevs := []hash.SHA256Hash{head.Ref}
		key := corpus.Keys[0]
		switch s.D.Decide("tx-kind", 6) {
		case 0:
			return pickBytes("tx-bytes", head.Raw), nil, "transaction bytes: garbage / truncated"
		case 1:
			k := world.MutantKinds[s.D.Decide("mutant", len(world.MutantKinds))]
			if m := corpus.Mutant(k, head, []*world.CTx{head}); m != nil {
				return m.Raw, m.Payload, "transaction: " + k
			}
			return []byte("x"), nil, "transaction bytes: x"
		case 2, 3:
			// type-confused protected header under a valid signature
			payload := []byte("c19-" + fmt.Sprint(s.D.Decide("p", 1000)))
			hdr := world.TxHeaderJSON(prevs, head.LC+1, "foo/bar", key, time.Now())
			if s.D.Decide("hdr-with-pal", 3) == 0 {
				// a private transaction: participant list header (opaque encrypted entries)
				var hm map[string]interface{}
				_ = json.Unmarshal(hdr, &hm)
				hm["pal"] = []string{"QUJDREVGR0hJSktMTU5PUFFSU1RVVldYWVo=", "MDEyMzQ1Njc4OTAxMjM0NTY3ODkwMTIzNDU2Nzg5"}
				hdr, _ = json.Marshal(hm)
			}
			m, desc := world.MutateJSON(hdr, func(l string, n int) int { return s.D.Decide("hdr "+l, n) })
			raw := world.RawJWS(m, []byte(hash.SHA256Sum(payload).String()), key)
			return raw, payload, "transaction header (signed): " + desc
		default:
			// a valid transaction that carries a mutated DID document: creation of a new DID or update of the existing one
			var base []byte
			var signKey = didKey
			signKid := ""
			if s.D.Decide("did-tx", 2) == 0 {
				nK := newC9Key()
				nk := nK.priv
				nkid, _ := didnuts.DIDKIDNamingFunc(nk.Public())
				nid := did.MustParseDIDURL(nkid).DID
				nd := didnuts.CreateDocument()
				nd.ID = nid
				nvm := vmFor(nid, nK)
				nd.AddCapabilityInvocation(nvm)
				nd.AddAssertionMethod(nvm)
				nd.Service = []did.Service{{ID: did.MustParseDIDURL(nid.String() + "#svc").URI(), Type: "x", ServiceEndpoint: "https://x.sim"}}
				base, _ = json.Marshal(nd)
				signKey = nk
			} else {
				upd := doc
				upd.Service = []did.Service{{ID: did.MustParseDIDURL(didID.String() + "#svc").URI(), Type: "x", ServiceEndpoint: map[string]interface{}{"a": "https://x.sim"}}}
				base, _ = json.Marshal(upd)
				signKid = kid
				didUpdateSent = true
			}
			m, desc := world.MutateJSON(base, func(l string, n int) int { return s.D.Decide("doc "+l, n) })
			pr := prevs
			if signKid != "" {
				pr = append(pr, createTx.Ref)
				if createTx.Ref == head.Ref {
					pr = prevs
				}
			}
			t, err := corpus.SignWith(pr, head.LC+1, m, didnuts.DIDDocumentType, signKey, signKid)
			if err != nil {
				return []byte("x"), nil, "transaction bytes: x"
			}
			legit[t.Ref] = true // a well-formed transaction: the DAG may take it; what the VDR does with the document is the question
			head2 := t
			_ = head2
			return t.Raw, m, "valid transaction with DID document: " + desc
		}
	}
	validIBLT := func() []byte {
		ib := tree.NewIblt(dag.IbltNumBuckets)
		for _, t := range chain {
			ib.Insert(t.Ref)
		}
		b, _ := ib.MarshalBinary()
		return b
	}
	kinds := []string{"transaction-set-cycling-key", "gossip", "state", "transaction-set", "list-query", "range-query", "payload-query", "transaction-list", "transaction-list", "transaction-list", "transaction-payload", "diagnostics", "empty"}
	steps := 3 + s.D.Decide("steps", 8)
	for i := 0; i < steps && !s.Failed(); i++ {
		kind := kinds[s.D.Decide("envelope", len(kinds))]
		var env *v2.Envelope
		desc := kind
		switch kind {
		case "gossip":
			var refs [][]byte
			for j := s.D.Decide("gossip-refs", 4); j > 0; j-- {
				refs = append(refs, pickBytes("gossip-ref", hash.SHA256Sum([]byte{byte(i), byte(j)}).Slice()))
			}
			if s.D.Decide("gossip-many", 8) == 0 {
				for j := 0; j < 3000; j++ {
					refs = append(refs, hash.SHA256Sum([]byte(fmt.Sprint(j))).Slice())
				}
			}
			env = &v2.Envelope{Message: &v2.Envelope_Gossip{Gossip: &v2.Gossip{XOR: pickBytes("gossip-xor", hash.SHA256Sum([]byte("x")).Slice()), LC: pickU32("gossip-lc", head.LC), Transactions: refs}}}
		case "state":
			env = &v2.Envelope{Message: &v2.Envelope_State{State: &v2.State{ConversationID: pickBytes("state-cid", []byte("0123456789abcdef0123456789abcdef0123")), XOR: pickBytes("state-xor", hash.SHA256Sum([]byte("y")).Slice()), LC: pickU32("state-lc", head.LC)}}}
		case "transaction-set":
			ib := validIBLT()
			switch s.D.Decide("iblt", 8) {
			case 0:
			case 1:
				ib = nil
			case 2:
				ib = ib[:len(ib)/2]
			case 3:
				ib = ib[:1+s.D.Decide("iblt-cut", len(ib)-1)]
			case 4:
				for j := 0; j < 40; j++ {
					ib[s.D.Decide("iblt-pos", len(ib))] ^= byte(1 + s.D.Decide("iblt-bit", 255))
				}
			case 5:
				ib = bytes.Repeat([]byte{0xff}, len(ib))
			case 6:
				ib = append(ib, ib...)
			default:
				ib = bytes.Repeat([]byte{1}, len(ib))
			}
			cid := convFor("state")
			if s.D.Decide("set-cid", 3) == 0 || cid == nil {
				cid = pickBytes("set-cid-bytes", []byte("0123456789abcdef0123456789abcdef0123"))
			}
			env = &v2.Envelope{Message: &v2.Envelope_TransactionSet{TransactionSet: &v2.TransactionSet{ConversationID: cid, LCReq: pickU32("set-lcreq", head.LC), LC: pickU32("set-lc", head.LC), IBLT: ib}}}
		case "transaction-set-cycling-key":
			// A set-reconciliation filter with one cell for a key whose chain of bucket hashes runs into a cycle of three
			// values (three buckets, six are needed): inserting or deleting that key never ended. (The key was met by chance,
			// as the ref of a transaction in a C13 run; finding such keys by search takes a few billion hash evaluations.)
			x := hash.SHA256Sum([]byte(fmt.Sprintf("cyc-%d", i)))
			_ = w.P2P.Inject("byz", "n1", &v2.Envelope{Message: &v2.Envelope_Gossip{Gossip: &v2.Gossip{XOR: x.Slice(), LC: head.LC}}})
			s.Advance(300 * time.Millisecond)
			cid := convFor("state")
			if cid == nil {
				continue
			}
			key, _ := hex.DecodeString("b35f2a6e91faa94a94dd6ac4df87c9a0a15bf3000e0e79c321bf8b2072f63a6a")
			ib := make([]byte, dag.IbltNumBuckets*44)
			for _, cell := range []int{7, 300, 901} {
				binary.LittleEndian.PutUint32(ib[cell*44:], 1)
				binary.LittleEndian.PutUint64(ib[cell*44+4:], 11175506510798283031)
				copy(ib[cell*44+12:], key)
			}
			mu.Lock()
			lc := stateLC
			mu.Unlock()
			env = &v2.Envelope{Message: &v2.Envelope_TransactionSet{TransactionSet: &v2.TransactionSet{ConversationID: cid, LCReq: lc, LC: lc, IBLT: ib}}}
		case "list-query":
			var refs [][]byte
			for j := s.D.Decide("query-refs", 4); j > 0; j-- {
				refs = append(refs, pickBytes("query-ref", chain[0].Ref.Slice()))
			}
			env = &v2.Envelope{Message: &v2.Envelope_TransactionListQuery{TransactionListQuery: &v2.TransactionListQuery{ConversationID: pickBytes("lq-cid", []byte("0123456789abcdef0123456789abcdef0123")), Refs: refs}}}
		case "range-query":
			env = &v2.Envelope{Message: &v2.Envelope_TransactionRangeQuery{TransactionRangeQuery: &v2.TransactionRangeQuery{ConversationID: pickBytes("rq-cid", []byte("0123456789abcdef0123456789abcdef0123")), Start: pickU32("rq-start", 0), End: pickU32("rq-end", head.LC)}}}
		case "payload-query":
			env = &v2.Envelope{Message: &v2.Envelope_TransactionPayloadQuery{TransactionPayloadQuery: &v2.TransactionPayloadQuery{ConversationID: pickBytes("pq-cid", []byte("0123456789abcdef0123456789abcdef0123")), TransactionRef: pickBytes("pq-ref", chain[0].Ref.Slice())}}}
		case "transaction-list":
			// build the hostile transactions first, advertise their refs so that the node asks for
			// them, then answer in that conversation (or in a wrong one)
			var txs []*v2.Transaction
			var descs []string
			var adv [][]byte
			for j := 1 + s.D.Decide("tl-count", 3); j > 0; j-- {
				raw, payload, d := hostileTx()
				descs = append(descs, d)
				adv = append(adv, hash.SHA256Sum(raw).Slice())
				t := &v2.Transaction{Data: raw}
				switch s.D.Decide("tl-payload", 4) {
				case 0:
					t.Payload = payload
				case 1:
					t.Payload = []byte("mismatch")
				case 2:
					t.Payload = []byte{}
				}
				txs = append(txs, t)
			}
			if s.D.Decide("provoke-query", 4) != 0 {
				// the node asks for exactly these refs if they explain the difference between its XOR and the peer's
				x, _ := n1.State().XOR(dag.MaxLamportClock)
				for _, a := range adv {
					x = x.Xor(hash.FromSlice(a))
				}
				_ = w.P2P.Inject("byz", "n1", &v2.Envelope{Message: &v2.Envelope_Gossip{Gossip: &v2.Gossip{XOR: x.Slice(), LC: head.LC + 1, Transactions: adv}}})
				s.Advance(300 * time.Millisecond)
			}
			cid := convFor([]string{"list", "list", "range", "state"}[s.D.Decide("tl-conv", 4)])
			if cid == nil || s.D.Decide("tl-cid", 6) == 0 {
				cid = pickBytes("tl-cid-bytes", []byte("0123456789abcdef0123456789abcdef0123"))
			}
			if s.D.Decide("tl-nil-entry", 10) == 0 {
				txs = append(txs, &v2.Transaction{})
			}
			desc += " [" + strings.Join(descs, "; ") + "]"
			env = &v2.Envelope{Message: &v2.Envelope_TransactionList{TransactionList: &v2.TransactionList{ConversationID: cid, Transactions: txs,
				TotalMessages: []uint32{1, 0, 2, 1 << 31, dag.MaxLamportClock}[s.D.Decide("tl-total", 5)], MessageNumber: []uint32{1, 0, 2, 3, dag.MaxLamportClock}[s.D.Decide("tl-number", 5)]}}}
		case "transaction-payload":
			cid := convFor("payload")
			if cid == nil || s.D.Decide("tp-cid", 3) == 0 {
				cid = pickBytes("tp-cid-bytes", []byte("0123456789abcdef0123456789abcdef0123"))
			}
			env = &v2.Envelope{Message: &v2.Envelope_TransactionPayload{TransactionPayload: &v2.TransactionPayload{ConversationID: cid, TransactionRef: pickBytes("tp-ref", chain[0].Ref.Slice()), Data: pickBytes("tp-data", []byte("not the payload"))}}}
		case "diagnostics":
			peers := []string{"a", "", strings.Repeat("p", 100000)}
			env = &v2.Envelope{Message: &v2.Envelope_DiagnosticsBroadcast{DiagnosticsBroadcast: &v2.Diagnostics{Uptime: pickU32("d-up", 1), PeerID: strings.Repeat("x", s.D.Decide("d-peer", 3)*50000), Peers: peers[:s.D.Decide("d-peers", 4)], NumberOfTransactions: pickU32("d-n", 1), SoftwareVersion: "\x00", SoftwareID: ""}}}
		default:
			env = &v2.Envelope{}
		}
		sample.Hostile = append(sample.Hostile, desc)
		fmt.Printf("HOSTILE-INPUT run=%d peer: %s\n", rc.Run, desc)
		if err := w.P2P.Inject("byz", "n1", env); err != nil {
			s.Fail("C19.harness", "inject", "%v", err)
			return
		}
		if !s.Do("settle", 2*time.Minute, func() { time.Sleep(time.Duration(200+s.D.Decide("gap", 3000)) * time.Millisecond) }) {
			s.Fail("C19.no-hang", kind, "the node did not come to rest after a hostile %s envelope", kind)
			return
		}
	}
	if s.Failed() {
		return
	}
	s.Advance(10 * time.Second)
	after, extra := digest()
	if didUpdateSent {
		before = beforeNoDID
	}
	if after != before {
		s.Fail("C19.unchanged", "dag", "stored transactions, payloads or the DID document changed although the peer sent nothing valid about them (digest %s -> %s)", before[:12], after[:12])
		return
	}
	if extra > 0 {
		s.Probes.Inc("well-formed-transaction-with-mutated-document-admitted")
	}
	// the node still works: a valid transaction is accepted and the DID still resolves
	okTx := corpus.SignValid([]*world.CTx{head}, []byte("after"), "foo/bar", corpus.Keys[0], nil)
	var err2 error
	if !s.Do("after", time.Minute, func() { err2 = n1.State().Add(ctx, okTx.Tx, okTx.Payload) }) || err2 != nil {
		s.Fail("C19.no-hang", "after", "after the hostile input the node does not accept a valid transaction: %v", err2)
		return
	}
	rc.Nontrivial = true
}

// ---------------------------------------------------------------------------------------
// arena "http"
// ---------------------------------------------------------------------------------------

var c19ContentTables = []string{"credential", "credential_prop", "wallet_credential", "issued_credential", "did", "did_document_version", "did_verification_method",
	"did_service", "discovery_presentation", "discovery_credential", "status_list", "status_list_entry", "key_reference"}

func sqlDigest(n *world.Node) string {
	db := n.Storage.Real.GetSQLDatabase()
	h := sha256.New()
	for _, t := range c19ContentTables {
		rows, err := db.Raw("SELECT * FROM " + t).Rows()
		if err != nil {
			fmt.Fprintf(h, "%s: %v\n", t, err)
			continue
		}
		cols, _ := rows.Columns()
		var lines []string
		for rows.Next() {
			vals := make([]interface{}, len(cols))
			ptrs := make([]interface{}, len(cols))
			for i := range vals {
				ptrs[i] = &vals[i]
			}
			if rows.Scan(ptrs...) == nil {
				lines = append(lines, fmt.Sprint(vals...))
			}
		}
		rows.Close()
		sort.Strings(lines)
		fmt.Fprintf(h, "%s %d\n%s\n", t, len(lines), strings.Join(lines, "\n"))
	}
	return hex.EncodeToString(h.Sum(nil))
}

func c19HTTP(s *simkit.Sim, rc *simkit.RunCtx, sample *c19Sample) {
	w := world.New(s, rc)
	defer w.Shutdown()
	w.OnPanic = func(where string, v interface{}, stack []byte) {
		if os.Getenv("C19SURVEY") != "" {
			fmt.Printf("PANIC-SITE %s | %s | %v | %v\n", panicSite(stack), where, v, sample.Hostile)
			return
		}
		s.Fail("C19.no-panic", panicSite(stack), "%s panicked: %v\n%s", where, v, stack)
	}
	as, err := w.StartNode(world.NodeOpts{Name: "nodea", DIDMethods: "web", Web: true, DiscoveryServer: true, DiscoveryHost: "nodea.sim"})
	if err != nil {
		s.Fail("C19.harness", "start", "%v", err)
		return
	}
	cl, err := w.StartNode(world.NodeOpts{Name: "nodeb", DIDMethods: "web", Web: true, DiscoveryHost: "nodea.sim"})
	if err != nil {
		s.Fail("C19.harness", "start", "%v", err)
		return
	}
	s.Enable(true)
	var didB string
	var setupErr error
	s.Do("setup", 5*time.Minute, func() {
		if _, err := as.CreateSubject("vendorA"); err != nil {
			setupErr = err
			return
		}
		db, err := cl.CreateSubject("vendorB")
		if err != nil {
			setupErr = err
			return
		}
		didB = db[0]
		vc, _, err := cl.IssueOrgCredential(didB, didB, "Caresoft B.V.", "Caretown", true, []string{"", "jwt_vc"}[s.D.Decide("vc-format", 2)])
		if err != nil {
			setupErr = err
			return
		}
		setupErr = cl.LoadIntoWallet("vendorB", vc)
	})
	if setupErr != nil {
		s.Fail("C19.harness", "setup", "%v", setupErr)
		return
	}
	// ---- the corrupting link: which exchange, which direction, which mutation ----
	classes := []string{"metadata", "presentation_definition", "token", "did.json", "statuslist", "discovery", "dpop-proof", "dpop-validate"}
	class := classes[s.D.Decide("exchange", len(classes))]
	direction := []string{"request", "response"}[s.D.Decide("direction", 2)]
	if class != "token" && class != "discovery" {
		direction = "response" // GET exchanges carry nothing in the request but the URL
	}
	classOf := func(req *http.Request) string {
		p := req.URL.Path
		switch {
		case strings.Contains(p, "/.well-known/oauth-authorization-server"), strings.Contains(p, "/.well-known/openid"):
			return "metadata"
		case strings.HasSuffix(p, "/presentation_definition"):
			return "presentation_definition"
		case strings.HasSuffix(p, "/token"):
			return "token"
		case strings.HasSuffix(p, "/did.json"):
			return "did.json"
		case strings.Contains(p, "/statuslist/"):
			return "statuslist"
		case strings.Contains(p, "/discovery/"):
			return "discovery"
		}
		return "other"
	}
	budget := 1 + s.D.Decide("mutated-exchanges", 2)
	var tmu sync.Mutex
	// discovery requests: the registration, or only the retraction that a deactivation sends later
	phase := ""
	retractionOnly := class == "discovery" && direction == "request" && s.D.Decide("discovery-target", 2) == 1
	tampered := 0
	chooser := func(l string, n int) int { return s.D.Decide("m "+l, n) }
	mutateBody := func(body []byte, ct string) ([]byte, string) {
		if len(body) == 0 {
			return nil, ""
		}
		if strings.Contains(ct, "x-www-form-urlencoded") {
			return world.MutateForm(body, chooser)
		}
		m, d := world.MutateValue(string(body), chooser)
		return []byte(m), d
	}
	take := func() bool {
		tmu.Lock()
		defer tmu.Unlock()
		if tampered >= budget {
			return false
		}
		tampered++
		return true
	}
	if class == "dpop-proof" {
		// the DPoP proof in the header of the token request is self-signed (embedded key): whoever sends the request can
		// sign any claims. The workload replaces the key by its own, mutates header or claims, and signs again.
		direction = "request"
		attacker := world.NewKey()
		attackerJWK, _ := jwk.FromRaw(attacker.Public())
		w.HTTP.TamperRequest = func(req *http.Request, body []byte) []byte {
			proof := req.Header.Get("DPoP")
			if classOf(req) != "token" || proof == "" || !take() {
				return body
			}
			parts := strings.Split(proof, ".")
			if len(parts) != 3 {
				return body
			}
			hb, _ := base64.RawURLEncoding.DecodeString(parts[0])
			var hm map[string]interface{}
			if json.Unmarshal(hb, &hm) != nil {
				return body
			}
			jb, _ := json.Marshal(attackerJWK)
			hm["jwk"] = json.RawMessage(jb)
			hb, _ = json.Marshal(hm)
			parts[0] = base64.RawURLEncoding.EncodeToString(hb)
			forged, d := world.MutateJWT(strings.Join(parts, "."), chooser, func(in string) string { return world.SignES256(in, attacker) })
			if forged == "" {
				return body
			}
			req.Header.Set("DPoP", forged)
			tmu.Lock()
			sample.Hostile = append(sample.Hostile, "DPoP proof (re-signed): "+d)
			tmu.Unlock()
			fmt.Printf("HOSTILE-INPUT run=%d http: DPoP proof (re-signed): %s\n", rc.Run, d)
			return body
		}
	} else if direction == "request" {
		w.HTTP.TamperRequest = func(req *http.Request, body []byte) []byte {
			if classOf(req) != class || len(body) == 0 {
				return body
			}
			if class == "discovery" && retractionOnly {
				tmu.Lock()
				ph := phase
				tmu.Unlock()
				if ph != "retract" {
					return body
				}
			}
			if !take() {
				return body
			}
			m, d := mutateBody(body, req.Header.Get("Content-Type"))
			if m == nil {
				return body
			}
			tmu.Lock()
			sample.Hostile = append(sample.Hostile, fmt.Sprintf("%s %s request: %s", req.Method, class, d))
			fmt.Printf("HOSTILE-INPUT run=%d http: %s %s request: %s\n", rc.Run, req.Method, class, d)
			tmu.Unlock()
			return m
		}
	} else {
		w.HTTP.TamperResponse = func(req *http.Request, status int, body []byte) []byte {
			if classOf(req) != class || len(body) == 0 || status >= 300 || !take() {
				return body
			}
			m, d := mutateBody(body, "application/json")
			if m == nil {
				return body
			}
			tmu.Lock()
			sample.Hostile = append(sample.Hostile, fmt.Sprintf("%s %s response: %s", req.Method, class, d))
			fmt.Printf("HOSTILE-INPUT run=%d http: %s %s response: %s\n", rc.Run, req.Method, class, d)
			tmu.Unlock()
			return m
		}
	}
	w.HTTP.KeepBodies = false
	// server-side answers to tampered requests, for the rejected => unchanged oracle
	type answer struct {
		class  string
		status int
	}
	var answers []answer
	w.HTTP.Observe = func(rec *seams.HTTPRecord) {
		tmu.Lock()
		defer tmu.Unlock()
		if len(answers) < 50 {
			answers = append(answers, answer{rec.Path, rec.Status})
		}
	}
	op := func(name string, fn func()) bool {
		if !s.Do(name, 5*time.Minute, fn) {
			s.Fail("C19.no-hang", name, "operation %s did not end within 5 minutes of virtual time after a mutated %s %s", name, class, direction)
			return false
		}
		return !s.Failed()
	}
	scope := []string{"anyformat", "withreq"}[s.D.Decide("scope", 2)]
	beforeAS, beforeCL := sqlDigest(as), sqlDigest(cl)
	var tr world.TokenResult
	if !op("token", func() {
		tt := []string{"Bearer", ""}[s.D.Decide("tt", 2)]
		if class == "dpop-proof" || class == "dpop-validate" {
			tt = "" // DPoP is the default token type
		}
		tr = cl.RequestServiceToken("vendorB", "https://nodea.sim/oauth2/vendorA", scope, tt, true)
	}) {
		return
	}
	sample.Answers = append(sample.Answers, fmt.Sprintf("token: %d %s", tr.Code, trunc(string(tr.Body), 400)))
	if os.Getenv("C19DEBUG") != "" {
		_, wb := cl.Call("GET", "/internal/vcr/v2/holder/vendorB/vc", nil)
		fmt.Println("WALLET", string(wb))
		_, pd := as.Call("GET", "/oauth2/vendorA/presentation_definition?scope=anyformat", nil)
		fmt.Println("PD", string(pd))
	}
	tmu.Lock()
	nTampered := tampered
	tmu.Unlock()
	if nTampered > 0 && tr.Code >= 400 {
		// the token operation failed: nothing of it may have been stored as content on either side
		if d := sqlDigest(as); d != beforeAS {
			s.Fail("C19.unchanged", "token:server", "a failed token request (%s %s mutated: %v) changed the authorization server's stored content", class, direction, sample.Hostile)
			return
		}
		if d := sqlDigest(cl); d != beforeCL {
			s.Fail("C19.unchanged", "token:client", "a failed token request (%s %s mutated: %v) changed the client's stored content", class, direction, sample.Hostile)
			return
		}
		s.Probes.Inc("mutated-exchange-rejected")
	} else if nTampered > 0 {
		s.Probes.Inc("mutated-exchange-tolerated")
	}
	if tr.Code == 200 && tr.AccessToken != "" {
		if !op("introspect", func() { as.Introspect(tr.AccessToken) }) {
			return
		}
	}
	if class == "dpop-validate" && tr.Code == 200 && tr.DPoPKid != "" {
		// The holder of a DPoP-bound token signs the proofs it sends to a resource server with its own key: it can put
		// anything into them. The resource server hands proof, method and URL to its node for validation.
		_, intro := as.Introspect(tr.AccessToken)
		jkt := ""
		if cnf, ok := intro["cnf"].(map[string]interface{}); ok {
			jkt, _ = cnf["jkt"].(string)
		}
		var proof string
		if !op("dpop-proof", func() {
			_, body := cl.Call("POST", "/internal/auth/v2/dpop/"+strings.ReplaceAll(tr.DPoPKid, "#", "%23"), map[string]string{"htm": "GET", "htu": "https://nodea.sim/resource", "token": tr.AccessToken})
			var dp struct {
				Dpop string `json:"dpop"`
			}
			_ = json.Unmarshal(body, &dp)
			proof = dp.Dpop
		}) {
			return
		}
		parts := strings.Split(proof, ".")
		if len(parts) == 3 && jkt != "" {
			hb, _ := base64.RawURLEncoding.DecodeString(parts[0])
			cb, _ := base64.RawURLEncoding.DecodeString(parts[1])
			var hm map[string]json.RawMessage
			_ = json.Unmarshal(hb, &hm)
			key, kerr := jwk.ParseKey(hm["jwk"])
			for i := 0; i < 3 && kerr == nil; i++ {
				mut, d := world.MutateJSON(cb, func(l string, n int) int { return s.D.Decide("dpopv "+l, n) })
				if mut == nil {
					continue
				}
				var forged string
				var serr error
				if !op("sign-proof", func() {
					forged, serr = cl.Crypto.SignJWS(audit.Context(context.Background(), "sim", "Sim", "op"), mut, map[string]interface{}{"typ": "dpop+jwt", "jwk": key}, tr.DPoPKid, false)
				}) {
					return
				}
				if serr != nil {
					continue
				}
				sample.Hostile = append(sample.Hostile, "DPoP proof for the resource server (signed by the token holder): "+d)
				fmt.Printf("HOSTILE-INPUT run=%d http: DPoP proof for validation (signed by the token holder): %s\n", rc.Run, d)
				tmu.Lock()
				tampered++
				tmu.Unlock()
				method := []string{"GET", "", "POST", "\x00"}[s.D.Decide("validate-method", 4)]
				u := []string{"https://nodea.sim/resource", "", "://", "https://nodea.sim:99999/resource", "%zz", "http://[::1"}[s.D.Decide("validate-url", 6)]
				if !op("dpop-validate", func() {
					as.Call("POST", "/internal/auth/v2/dpop/validate", map[string]string{"dpop_proof": forged, "method": method, "thumbprint": jkt, "token": tr.AccessToken, "url": u})
				}) {
					return
				}
			}
		}
	}
	// discovery: activation registers a presentation on the server, the client refreshes its copy
	if class == "discovery" || class == "did.json" || class == "statuslist" {
		beforeAS = sqlDigest(as)
		var code int
		var body []byte
		if !op("activate", func() {
			code, body = cl.Call("POST", "/internal/discovery/v1/sim-svc/vendorB", `{"registrationParameters":{"k":"v"}}`)
		}) {
			return
		}
		sample.Answers = append(sample.Answers, fmt.Sprintf("activate: %d %s", code, trunc(string(body), 80)))
		// a registration the server answered with an error must not be on its list
		tmu.Lock()
		rejected := false
		for _, a := range answers {
			if strings.Contains(a.class, "/discovery/") && a.status >= 400 {
				rejected = true
			}
		}
		accepted := false
		for _, a := range answers {
			if strings.Contains(a.class, "/discovery/") && a.status >= 200 && a.status < 300 {
				accepted = true
			}
		}
		tmu.Unlock()
		if rejected && !accepted && class == "discovery" && direction == "request" {
			if d := sqlDigest(as); d != beforeAS {
				s.Fail("C19.unchanged", "discovery:server", "a registration answered with an error changed the discovery server's stored content (%v)", sample.Hostile)
				return
			}
			s.Probes.Inc("mutated-registration-rejected")
		}
		if !op("search", func() { cl.Call("GET", "/internal/discovery/v1/sim-svc", nil) }) {
			return
		}
		s.Advance(30 * time.Second)
		if class == "discovery" && (retractionOnly || s.D.Decide("deactivate", 2) == 1) {
			// deactivation sends a retraction presentation to the server
			tmu.Lock()
			phase = "retract"
			tmu.Unlock()
			if !op("deactivate", func() {
				code, body = cl.Call("DELETE", "/internal/discovery/v1/sim-svc/vendorB", nil)
			}) {
				return
			}
			sample.Answers = append(sample.Answers, fmt.Sprintf("deactivate: %d %s", code, trunc(string(body), 80)))
			s.Advance(10 * time.Second)
		}
	}
	// ---- afterwards the nodes still serve a valid request ----
	w.HTTP.TamperRequest, w.HTTP.TamperResponse = nil, nil
	s.Advance(20 * time.Second) // caches of mutated-but-tolerated answers may live for a while; a fresh flow below uses no-cache
	var tr2 world.TokenResult
	ok := false
	for attempt := 0; attempt < 3 && !ok; attempt++ {
		if !op("token-after", func() {
			tr2 = cl.RequestServiceToken("vendorB", "https://nodea.sim/oauth2/vendorA", scope, "Bearer", true)
		}) {
			return
		}
		ok = tr2.Code == 200
		if !ok {
			s.Advance(16 * time.Minute) // cached metadata / status list / did document from the hostile exchange expire
		}
	}
	if !ok {
		s.Fail("C19.no-hang", "after", "after a mutated %s %s (%v) the nodes no longer complete a valid token request: %d %s", class, direction, sample.Hostile, tr2.Code, trunc(string(tr2.Body), 300))
		return
	}
	rc.Nontrivial = nTampered > 0
	rc.Signature = ""
}
