package props

import (
	"bytes"
	"context"
	"crypto/x509"
	"fmt"
	"os"
	"strings"
	"sync"
	"testing"
	"time"

	"github.com/nuts-foundation/go-did/did"
	"github.com/nuts-foundation/nuts-node/crypto/hash"
	"github.com/nuts-foundation/nuts-node/network"
	"github.com/nuts-foundation/nuts-node/network/dag"
	"github.com/nuts-foundation/nuts-node/network/transport"
	"github.com/nuts-foundation/nuts-node/network/transport/grpc"
	v2 "github.com/nuts-foundation/nuts-node/network/transport/v2"
	"github.com/nuts-foundation/nuts-node/vdr/didsubject"
	"github.com/nuts-foundation/nuts-node/vdr/resolver"
	"verifsim/seams"
	"verifsim/simkit"
	"verifsim/world"
)

// C15 — private transaction payloads go only to authenticated listed participants.
//
// World A, 3-4 real Network engine nodes whose node DIDs (did:nuts, created through the real
// VDR, with keyAgreement keys and NutsComm services) are configured, plus a scripted peer.
// Connections get their identity from the real TLS authenticator (in-memory certificates):
// listed and authenticated, authenticated but unlisted, anonymous, and claiming a listed DID with a
// certificate for another host. Nodes create private transactions with generated participant
// lists; honest and scripted peers query payloads, lists, ranges and state for them and push
// unsolicited / mismatching payloads. A transport-level monitor inspects every envelope handed
// to Send on any node.

func TestC15(t *testing.T) {
	simkit.Main(t, simkit.Spec{Property: "C15", World: "A/3-4nodes+scripted", Body: c15Body, MaxStepsPerRun: 300000})
}

type c15Private struct {
	marker  []byte
	pal     map[string]bool // node DIDs on the list
	creator string
	ref     hash.SHA256Hash
	names   []string
}

type c15Sample struct {
	Nodes      int      `json:"nodes"`
	Private    []string `json:"private_transactions"`
	Identities []string `json:"scripted_peer_identities"`
	Delivered  int      `json:"payloads_sent_to_listed_peers"`
	Queries    int      `json:"hostile_queries"`
	Pushed     int      `json:"unsolicited_payloads"`
}

func c15Body(s *simkit.Sim, rc *simkit.RunCtx) {
	sample := &c15Sample{}
	rc.Sample = sample
	w := world.New(s, rc)
	defer w.Shutdown()
	ctx := context.Background()
	if os.Getenv("C15DEBUG") != "" {
		w.LogHook.Keep = true
		defer func() {
			for _, l := range w.LogHook.Lines {
				if strings.Contains(l, "peer-byz") && !strings.HasPrefix(l, "trace") {
					fmt.Println("LOG", trunc(l, 400))
				}
			}
		}()
	}
	nn := 3 + s.D.Decide("nodes", 2)
	sample.Nodes = nn
	var names []string
	for i := 0; i < nn; i++ {
		names = append(names, fmt.Sprintf("n%d", i+1))
	}
	gossip := func(c *network.Config) {
		c.ProtocolV2.GossipInterval = 500
		c.ProtocolV2.PayloadRetryDelay = 2 * time.Second
	}
	for _, name := range names {
		if _, err := w.StartNode(world.NodeOpts{Name: name, DIDMethods: "nuts", NetConfig: gossip}); err != nil {
			s.Fail("C15.harness", "start", "%v", err)
			return
		}
	}
	s.Enable(true)
	// phase 1: node DIDs with keyAgreement keys and NutsComm services, known to everybody
	// one root for all nodes
	rootCorpus := world.NewCorpus("c15", func(string, int) int { return 0 })
	root := rootCorpus.Root()
	for _, name := range names {
		if err := w.Nodes[name].State().Add(ctx, root.Tx, root.Payload); err != nil {
			s.Fail("C15.harness", "root", "%v", err)
			return
		}
	}
	for i := 0; i < nn; i++ {
		for j := i + 1; j < nn; j++ {
			w.P2P.Connect(names[i], names[j], nil)
		}
	}
	dids := map[string]did.DID{}
	kids := map[string]string{}
	subjectOfOwner := map[string]string{}
	// "outsider": an extra DID (hosted on the last node) that the scripted peer may authenticate as
	// "keyless": a DID without a keyAgreement key: nothing can be encrypted for it
	owners := append(append([]string{}, names...), "outsider", "keyless")
	for _, owner := range owners {
		host := owner
		nodeName := owner
		if owner == "outsider" {
			nodeName = names[nn-1]
			host = "byz"
		}
		if owner == "keyless" {
			nodeName = names[0]
			host = "keyless"
		}
		n := w.Nodes[nodeName]
		var err error
		ok := s.Do("did@"+owner, 2*time.Minute, func() {
			var docs []did.Document
			var subject string
			opts := didsubject.DefaultCreationOptions()
			if owner != "keyless" {
				opts = opts.With(didsubject.EncryptionKeyCreationOption{})
			}
			docs, subject, err = n.VDR.Create(world.Ctx(), opts)
			if err != nil {
				return
			}
			dids[owner] = docs[0].ID
			subjectOfOwner[owner] = subject
			kids[owner] = docs[0].CapabilityInvocation[0].ID.String()
			if owner == "keyless" {
				err = n.VDR.Deactivate(world.Ctx(), subject) // a deactivated document has no keys at all
				return
			}
			_, err = n.VDR.CreateService(world.Ctx(), subject, did.Service{Type: transport.NutsCommServiceType, ServiceEndpoint: "grpc://" + host + ".sim:5555"})
		})
		if !ok || err != nil {
			s.Fail("C15.harness", "did", "node DID for %s: %v", owner, err)
			return
		}
	}
	sameDAG := func() bool {
		var first hash.SHA256Hash
		for i, name := range names {
			x, _ := w.Nodes[name].State().XOR(dag.MaxLamportClock)
			if i == 0 {
				first = x
			} else if !x.Equals(first) {
				return false
			}
		}
		return true
	}
	if !s.RunUntil(sameDAG, 5*time.Minute, 500*time.Millisecond) {
		s.Fail("C15.harness", "sync", "node DIDs did not spread")
		return
	}
	s.Advance(5 * time.Second)
	// phase 2: restart with the node DID configured
	s.Enable(false)
	for _, name := range names {
		w.Stop(name, false)
		nd := dids[name].String()
		if _, err := w.StartNode(world.NodeOpts{Name: name, DIDMethods: "nuts", NetConfig: func(c *network.Config) { gossip(c); c.NodeDID = nd }}); err != nil {
			s.Fail("C15.harness", "restart", "%v", err)
			return
		}
	}
	s.Enable(true)

	// ---- identities: the real authenticator decides ----
	auths := map[string]grpc.Authenticator{}
	authenticate := func(owner *seams.Endpoint, claim did.DID, certHost string, remoteID transport.PeerID, addr string) transport.Peer {
		peer := transport.Peer{ID: remoteID, Address: addr}
		if claim.Empty() {
			return peer // anonymous
		}
		// a host presents the same certificate on every connection: the same DER bytes (a parsed certificate always has them)
		peer.Certificate = &x509.Certificate{DNSNames: []string{certHost}, Raw: []byte("sim-der-of-the-certificate-of:" + certHost)}
		// one authenticator per node, as in the real connection manager (it lives as long as the node)
		auth := auths[owner.Name]
		if auth == nil {
			auth = grpc.NewTLSAuthenticator(resolver.DIDServiceResolver{Resolver: w.Nodes[owner.Name].DIDs})
			auths[owner.Name] = auth
		}
		if p2, err := auth.Authenticate(claim, peer); err == nil {
			return p2
		}
		s.Probes.Inc("authentication-refused")
		return transport.Peer{ID: remoteID, Address: addr} // not authenticated: treated as anonymous
	}
	honest := func(owner, remote *seams.Endpoint) transport.Peer {
		return authenticate(owner, dids[remote.Name], remote.Name+".sim", remote.PeerID, remote.Name+".sim:5555")
	}
	for i := 0; i < nn; i++ {
		for j := i + 1; j < nn; j++ {
			w.P2P.Connect(names[i], names[j], honest)
		}
	}
	// the scripted peer and how it appears to each node
	byz := &seams.Endpoint{Name: "byz", PeerID: "peer-byz", Inc: &seams.Incarnation{Node: "byz", Gen: 1, S: s}}
	var bmu sync.Mutex
	var byzGot [][]byte
	byzTxs := map[hash.SHA256Hash][]byte{} // transactions of its own that the scripted peer hands out when asked
	// how it answers a list query: in one message, or in two of which the second repeats the transactions - by then present
	// without payload - with bytes that do not hash to the declared payload hash
	byzAnswersTwice := s.D.Decide("byz-list-answer-twice-with-wrong-payload", 2) == 1
	var declaredHashes []hash.SHA256Hash
	byz.OnMessage = func(from *seams.Endpoint, conn *seams.Conn, envelope interface{}) {
		if e, ok := envelope.(*v2.Envelope); ok {
			if tp := e.GetTransactionPayload(); tp != nil && len(tp.Data) > 0 {
				bmu.Lock()
				byzGot = append(byzGot, tp.Data)
				bmu.Unlock()
			}
			if q := e.GetTransactionListQuery(); q != nil {
				var txs []*v2.Transaction
				bmu.Lock()
				for _, r := range q.Refs {
					if raw, ok := byzTxs[hash.FromSlice(r)]; ok {
						txs = append(txs, &v2.Transaction{Data: raw}) // without payload: it does not have it
					}
				}
				bmu.Unlock()
				if len(txs) > 0 && !byzAnswersTwice {
					_ = w.P2P.Inject("byz", from.Name, &v2.Envelope{Message: &v2.Envelope_TransactionList{TransactionList: &v2.TransactionList{ConversationID: q.ConversationID, Transactions: txs, TotalMessages: 1, MessageNumber: 1}}})
				}
				if len(txs) > 0 && byzAnswersTwice {
					_ = w.P2P.Inject("byz", from.Name, &v2.Envelope{Message: &v2.Envelope_TransactionList{TransactionList: &v2.TransactionList{ConversationID: q.ConversationID, Transactions: txs, TotalMessages: 2, MessageNumber: 1}}})
					var again []*v2.Transaction
					for _, t := range txs {
						again = append(again, &v2.Transaction{Data: t.Data, Payload: append([]byte("NOT-THE-PAYLOAD-OF:"), t.Data[:32]...)})
					}
					_ = w.P2P.Inject("byz", from.Name, &v2.Envelope{Message: &v2.Envelope_TransactionList{TransactionList: &v2.TransactionList{ConversationID: q.ConversationID, Transactions: again, TotalMessages: 2, MessageNumber: 2}}})
					s.Probes.Inc("list-answer-repeated-with-mismatching-payload")
				}
			}
		}
	}
	w.P2P.AddEndpoint(byz)
	identities := []string{"anonymous", "authenticated-unlisted", "claims-listed-did-with-foreign-certificate", "claims-listed-did-without-certificate"}
	byzIdentity := map[string]string{}
	for _, name := range names {
		id := identities[s.D.Decide("byz-identity", len(identities))]
		byzIdentity[name] = id
		sample.Identities = append(sample.Identities, name+":"+id)
		nm := name
		w.P2P.Connect(nm, "byz", func(owner, remote *seams.Endpoint) transport.Peer {
			if owner.Name == "byz" {
				return transport.Peer{ID: remote.PeerID, Address: remote.Name + ".sim:5555"}
			}
			switch byzIdentity[nm] {
			case "authenticated-unlisted":
				return authenticate(owner, dids["outsider"], "byz.sim", "peer-byz", "byz.sim:5555")
			case "claims-listed-did-with-foreign-certificate":
				return authenticate(owner, dids[names[1]], "byz.sim", "peer-byz", "byz.sim:5555")
			case "claims-listed-did-without-certificate":
				p := transport.Peer{ID: "peer-byz", Address: "byz.sim:5555"}
				auth := grpc.NewTLSAuthenticator(resolver.DIDServiceResolver{Resolver: w.Nodes[owner.Name].DIDs})
				if p2, err := auth.Authenticate(dids[names[1]], p); err == nil {
					return p2
				}
				return p
			}
			return transport.Peer{ID: "peer-byz", Address: "byz.sim:5555"}
		})
	}

	// ---- the monitor: every envelope handed to Send on any node ----
	var privs []*c15Private
	var pmu sync.Mutex
	w.P2P.Monitor = func(from, to *seams.Endpoint, conn *seams.Conn, envelope interface{}, wire []byte) {
		pmu.Lock()
		defer pmu.Unlock()
		for _, p := range privs {
			if !bytes.Contains(wire, p.marker) {
				continue
			}
			e, _ := envelope.(*v2.Envelope)
			peer := conn.Peer()
			isPayloadMsg := e != nil && e.GetTransactionPayload() != nil
			senderDID, senderHasDID := dids[from.Name]
			servedForOwnTx := false
			if isPayloadMsg {
				bmu.Lock()
				_, servedForOwnTx = byzTxs[hash.FromSlice(e.GetTransactionPayload().TransactionRef)]
				bmu.Unlock()
			}
			switch {
			case servedForOwnTx:
				// the payload was asked for, and served, as the payload of a transaction of the peer's own that declares the same payload hash
				s.Fail("C15.leak", "served-as-payload-of-another-transaction-with-the-same-hash", "node %s sent the payload of private transaction %s (participants %v) to %s (%s, authenticated=%v as %s) as the payload of that peer's own transaction %s, which declares the same payload hash",
					from.Name, p.ref, p.names, to.Name, byzIdentity[from.Name], peer.Authenticated, peer.NodeDID, hash.FromSlice(e.GetTransactionPayload().TransactionRef))
			case !isPayloadMsg:
				s.Fail("C15.leak", "wrong-message:"+fmt.Sprintf("%T", e.Message), "node %s put the payload of private transaction %s into a %T sent to %s", from.Name, p.ref, e.Message, to.Name)
			case !peer.Authenticated:
				s.Fail("C15.leak", "unauthenticated", "node %s sent the payload of private transaction %s to %s over an unauthenticated connection (%s)", from.Name, p.ref, to.Name, byzIdentity[from.Name])
			case !p.pal[peer.NodeDID.String()]:
				s.Fail("C15.leak", "unlisted-peer", "node %s sent the payload of private transaction %s (participants %v) to %s, authenticated as %s which is not on the list", from.Name, p.ref, p.names, to.Name, peer.NodeDID)
			case !senderHasDID || !p.pal[senderDID.String()]:
				s.Fail("C15.leak", "unlisted-sender", "node %s, which is not a participant of private transaction %s (participants %v), sent its payload to %s", from.Name, p.ref, p.names, to.Name)
			default:
				sample.Delivered++
			}
		}
	}

	// ---- workload ----
	nprivate := 1 + s.D.Decide("private-count", 3)
	var wrongPayloads [][]byte
	for k := 0; k < nprivate && !s.Failed(); k++ {
		creator := names[s.D.Decide("creator", nn)]
		p := &c15Private{creator: creator, pal: map[string]bool{}, marker: []byte(fmt.Sprintf("PRIVATE-PAYLOAD-%d-%016x-%s", k, rc.Seed, creator))}
		var participants []did.DID
		// the creator itself, and a seeded subset of the others (sometimes not the creator: a list it is not on)
		includeSelf := s.D.Decide("pal-self", 5) != 4
		for _, name := range names {
			in := (name == creator && includeSelf) || (name != creator && s.D.Decide("pal-member", 2) == 1)
			if in {
				participants = append(participants, dids[name])
				p.pal[dids[name].String()] = true
				p.names = append(p.names, name)
			}
		}
		if len(participants) == 0 {
			participants = append(participants, dids[creator])
			p.pal[dids[creator].String()] = true
			p.names = append(p.names, creator)
		}
		// sometimes a participant for whom the list cannot be encrypted: the transaction must not come into being
		unencryptable := s.D.Decide("pal-keyless-member", 5) == 4
		if unencryptable {
			if s.D.Decide("which-unencryptable", 2) == 0 {
				// a DID nobody has published
				participants = append(participants, did.MustParseDID("did:nuts:4tzMaWfpizVKeA8fscC3JTdWBc3asUWWMj5hUFHdWX3H"))
				p.names = append(p.names, "unknown-did")
			} else {
				// a deactivated DID
				participants = append(participants, dids["keyless"])
				p.names = append(p.names, "deactivated-did")
			}
			if s.D.Decide("keyless-first", 2) == 1 {
				participants[0], participants[len(participants)-1] = participants[len(participants)-1], participants[0]
			}
		}
		payload := append([]byte("{\"secret\":\""), append(p.marker, []byte("\"}")...)...)
		var tx dag.Transaction
		var err error
		s.Do("private@"+creator, 2*time.Minute, func() {
			pmu.Lock()
			privs = append(privs, p)
			pmu.Unlock()
			// signed by key id: the transaction must refer to the transaction(s) that published the signer's document
			_, meta, rerr := w.Nodes[creator].DIDs.Resolve(dids[creator], nil)
			if rerr != nil {
				err = rerr
				return
			}
			tpl := network.TransactionTemplate("application/x-sim-private", payload, kids[creator]).WithPrivate(participants).WithAdditionalPrevs(meta.SourceTransactions)
			tx, err = w.Nodes[creator].Net.CreateTransaction(world.Ctx(), tpl)
		})
		if unencryptable {
			s.Probes.Inc("participant-without-key-agreement-key")
			sample.Private = append(sample.Private, fmt.Sprintf("by %s for %v: %v", creator, p.names, err))
			if err == nil {
				// it exists: then it must carry a list, like every private transaction (the monitor watches its payload anyway)
				if len(tx.PAL()) == 0 {
					s.Fail("C15.leak", "published-without-list", "node %s published a transaction meant for %v as a public one (no participant list) when the list could not be encrypted for one participant", creator, p.names)
					return
				}
				p.ref = tx.Ref()
			}
			// whether refused or not: give it time to spread, the monitor sees every envelope
			s.Advance(time.Duration(3+s.D.Decide("spread", 10)) * time.Second)
			for _, target := range names {
				_ = w.P2P.Inject("byz", target, &v2.Envelope{Message: &v2.Envelope_TransactionRangeQuery{TransactionRangeQuery: &v2.TransactionRangeQuery{ConversationID: []byte("conv-1234567890-abcdef-1234567899"), Start: 0, End: 1000}}})
			}
			s.Advance(2 * time.Second)
			continue
		}
		if err != nil {
			s.Fail("C15.harness", "create-private", "%v", err)
			return
		}
		p.ref = tx.Ref()
		sample.Private = append(sample.Private, fmt.Sprintf("by %s for %v", creator, p.names))
		// let it spread and let the participants fetch the payload
		s.Advance(time.Duration(3+s.D.Decide("spread", 10)) * time.Second)
		// hostile and curious queries from every kind of peer
		refb := tx.Ref().Slice()
		queries := []func() *v2.Envelope{
			func() *v2.Envelope {
				return &v2.Envelope{Message: &v2.Envelope_TransactionPayloadQuery{TransactionPayloadQuery: &v2.TransactionPayloadQuery{TransactionRef: refb}}}
			},
			func() *v2.Envelope {
				return &v2.Envelope{Message: &v2.Envelope_TransactionListQuery{TransactionListQuery: &v2.TransactionListQuery{ConversationID: []byte("conv-1234567890-abcdef-1234567890"), Refs: [][]byte{refb}}}}
			},
			func() *v2.Envelope {
				return &v2.Envelope{Message: &v2.Envelope_TransactionRangeQuery{TransactionRangeQuery: &v2.TransactionRangeQuery{ConversationID: []byte("conv-1234567890-abcdef-1234567891"), Start: 0, End: 1000}}}
			},
			func() *v2.Envelope {
				return &v2.Envelope{Message: &v2.Envelope_State{State: &v2.State{ConversationID: []byte("conv-1234567890-abcdef-1234567892"), XOR: hash.EmptyHash().Slice(), LC: 1000}}}
			},
		}
		for _, target := range names {
			for qi, q := range queries {
				if s.D.Decide("send-query", 3) == 0 {
					continue
				}
				_ = qi
				sample.Queries++
				_ = w.P2P.Inject("byz", target, q())
				// an honest node that is not on the list asks as well
				for _, asker := range names {
					if asker != target && !p.pal[dids[asker].String()] && s.D.Decide("honest-unlisted-asks", 4) == 0 {
						sample.Queries++
						_ = w.P2P.Inject(asker, target, q())
					}
				}
			}
		}
		// unsolicited and mismatching payloads
		wrong := []byte(fmt.Sprintf("WRONG-PAYLOAD-%d-%016x", k, rc.Seed))
		wrongPayloads = append(wrongPayloads, wrong)
		unknownRef := hash.SHA256Sum([]byte(fmt.Sprintf("unknown-%d", k))).Slice()
		for _, target := range names {
			if s.D.Decide("push", 2) == 1 {
				sample.Pushed += 2
				_ = w.P2P.Inject("byz", target, &v2.Envelope{Message: &v2.Envelope_TransactionPayload{TransactionPayload: &v2.TransactionPayload{TransactionRef: refb, Data: wrong}}})
				_ = w.P2P.Inject("byz", target, &v2.Envelope{Message: &v2.Envelope_TransactionPayload{TransactionPayload: &v2.TransactionPayload{TransactionRef: unknownRef, Data: wrong}}})
			}
		}
		// A public transaction of the peer's own that declares the payload hash of the private transaction (the hash is in
		// the private transaction's header, which everybody has). Payloads are stored by hash: whoever serves "the payload of
		// this public transaction" serves the private payload.
		if s.D.Decide("public-tx-with-private-payload-hash", 2) == 1 {
			bkey := world.NewKey()
			// as a public transaction it must come with its payload (which the peer does not have); as a private transaction of
			// its own - participants: itself ("outsider") and the node it will ask - it may come without
			var epal dag.EncryptedPAL
			victim := ""
			if s.D.Decide("as-private-transaction", 3) != 0 {
				var holders []string
				for _, name := range names {
					if p.pal[dids[name].String()] && byzIdentity[name] == "authenticated-unlisted" {
						holders = append(holders, name)
					}
				}
				if len(holders) > 0 {
					victim = holders[s.D.Decide("victim", len(holders))]
					epal, _ = dag.PAL{dids["outsider"], dids[victim]}.Encrypt(resolver.DIDKeyResolver{Resolver: w.Nodes[victim].DIDs})
					if epal != nil {
						s.Probes.Inc("own-private-transaction-with-foreign-payload-hash-offered")
					}
				}
			}
			utx, uerr := dag.NewTransaction(tx.PayloadHash(), "application/x-sim-public", []hash.SHA256Hash{tx.Ref()}, epal, tx.Clock()+1)
			if uerr == nil {
				if signed, serr := dag.NewTransactionSigner(world.MemSigner{Key: bkey}, "", bkey.Public()).Sign(ctx, utx, time.Now()); serr == nil {
					bmu.Lock()
					byzTxs[signed.Ref()] = signed.Data()
					declaredHashes = append(declaredHashes, tx.PayloadHash())
					bmu.Unlock()
					s.Probes.Inc("public-transaction-with-private-payload-hash-offered")
					for _, target := range names {
						// advertise it so that the node asks for it
						x, _ := w.Nodes[target].State().XOR(dag.MaxLamportClock)
						x = x.Xor(signed.Ref())
						_ = w.P2P.Inject("byz", target, &v2.Envelope{Message: &v2.Envelope_Gossip{Gossip: &v2.Gossip{XOR: x.Slice(), LC: tx.Clock() + 1, Transactions: [][]byte{signed.Ref().Slice()}}}})
					}
					s.Advance(3 * time.Second)
					for _, target := range names {
						if present, _ := w.Nodes[target].State().IsPresent(ctx, signed.Ref()); present {
							s.Probes.Inc("public-transaction-with-private-payload-hash-admitted")
						}
						_ = w.P2P.Inject("byz", target, &v2.Envelope{Message: &v2.Envelope_TransactionPayloadQuery{TransactionPayloadQuery: &v2.TransactionPayloadQuery{TransactionRef: signed.Ref().Slice()}}})
						_ = w.P2P.Inject("byz", target, &v2.Envelope{Message: &v2.Envelope_TransactionListQuery{TransactionListQuery: &v2.TransactionListQuery{ConversationID: []byte("conv-1234567890-abcdef-1234567893"), Refs: [][]byte{signed.Ref().Slice()}}}})
					}
					s.Advance(3 * time.Second)
				}
			}
		}
		s.Advance(time.Duration(5+s.D.Decide("settle", 20)) * time.Second)
	}
	if s.Failed() {
		return
	}
	s.Advance(30 * time.Second)
	// ---- the NutsComm endpoint of the "outsider" DID moves to another host: the certificate of the former host no longer authenticates as that DID ----
	if s.D.Decide("nutscomm-moves", 3) == 2 && !s.Failed() {
		var witnesses []string
		for _, name := range names {
			if byzIdentity[name] == "authenticated-unlisted" {
				witnesses = append(witnesses, name) // these have authenticated the scripted peer as "outsider" (certificate for byz.sim)
			}
		}
		hostNode := w.Nodes[names[nn-1]]
		var moveErr error
		if len(witnesses) > 0 {
			s.Do("move-nutscomm", 2*time.Minute, func() {
				typ := transport.NutsCommServiceType
				svcs, err := hostNode.VDR.FindServices(world.Ctx(), subjectOfOwner["outsider"], &typ)
				if err != nil || len(svcs) == 0 {
					moveErr = fmt.Errorf("no NutsComm service: %v", err)
					return
				}
				_, moveErr = hostNode.VDR.UpdateService(world.Ctx(), subjectOfOwner["outsider"], svcs[0].ID, did.Service{Type: transport.NutsCommServiceType, ServiceEndpoint: "grpc://elsewhere.sim:5555"})
			})
			if moveErr == nil && s.RunUntil(sameDAG, 5*time.Minute, 500*time.Millisecond) {
				s.Advance(5 * time.Second)
				s.Probes.Inc("nutscomm-endpoint-moved")
				for _, name := range witnesses {
					ep := w.P2P.Endpoint(name)
					if ep == nil {
						continue
					}
					p2 := authenticate(ep, dids["outsider"], "byz.sim", "peer-byz", "byz.sim:5555")
					if p2.Authenticated {
						s.Fail("C15.leak", "authenticated-with-certificate-of-former-host", "node %s authenticates a peer with a certificate for byz.sim as %s although that DID's NutsComm endpoint has moved to elsewhere.sim: it would be given the private payloads addressed to that DID", name, dids["outsider"])
						return
					}
				}
			}
		}
	}
	// ---- closing oracles ----
	bmu.Lock()
	got := byzGot
	bmu.Unlock()
	for _, data := range got {
		for _, p := range privs {
			if bytes.Contains(data, p.marker) {
				s.Fail("C15.leak", "scripted-peer-received", "the scripted peer received the payload of private transaction %s", p.ref)
				return
			}
		}
	}
	for _, name := range names {
		st := w.Nodes[name].State()
		for _, wp := range wrongPayloads {
			if present, _ := st.IsPayloadPresent(ctx, hash.SHA256Sum(wp)); present {
				s.Fail("C15.store", "mismatching-payload-stored", "node %s stored a payload that does not hash to the payload hash of any transaction in its DAG", name)
				return
			}
		}
		// whatever is stored as a payload hashes to the key it is stored under
		bmu.Lock()
		hs := append([]hash.SHA256Hash{}, declaredHashes...)
		bmu.Unlock()
		for _, h := range hs {
			if data, err := st.ReadPayload(ctx, h); err == nil && data != nil && !hash.SHA256Sum(data).Equals(h) {
				s.Fail("C15.store", "stored-bytes-do-not-hash-to-the-payload-hash", "node %s holds %d bytes as the payload with hash %s, they hash to %s", name, len(data), h, hash.SHA256Sum(data))
				return
			}
		}
		// a private payload is present only on participants (everybody else never got it)
		for _, p := range privs {
			payload := append([]byte("{\"secret\":\""), append(p.marker, []byte("\"}")...)...)
			present, _ := st.IsPayloadPresent(ctx, hash.SHA256Sum(payload))
			if present && !p.pal[dids[name].String()] && name != p.creator {
				s.Fail("C15.leak", "payload-on-unlisted-node", "node %s holds the payload of private transaction %s although it is not a participant (%v)", name, p.ref, p.names)
				return
			}
			if present && p.pal[dids[name].String()] && name != p.creator {
				s.Probes.Inc("listed-participant-received-payload")
			}
		}
	}
	rc.Nontrivial = len(privs) > 0 && sample.Queries > 0
	rc.Signature = strings.Join(sample.Private, ";") + "|" + strings.Join(sample.Identities, ",")
}
