package props

import (
	"context"
	"fmt"
	"sort"
	"testing"
	"time"

	"github.com/nuts-foundation/nuts-node/crypto"
	"github.com/nuts-foundation/nuts-node/crypto/hash"
	"github.com/nuts-foundation/nuts-node/network"
	"github.com/nuts-foundation/nuts-node/network/dag"
	"verifsim/seams"
	"verifsim/simkit"
	"verifsim/world"
)

// C07 — connected nodes converge to the union of their DAGs despite loss and reordering.
//
// World A, 2-4 real Network engine nodes (real v2 protocol: gossip, state/IBLT, range and list
// queries, conversations) on the simulated peer-to-peer transport. Each node is preloaded with
// its own valid DAG on a shared root; transactions are also created during the run. A fault
// phase (message drop, duplication, delay/reordering, send errors, stale replays, partitions,
// node restarts) is followed by a fair suffix. Safety is checked all along, convergence within
// a virtual-time budget after faults stop.

func TestC07(t *testing.T) {
	simkit.Main(t, simkit.Spec{Property: "C07", World: "A/2-4nodes", Body: c07Body, MaxStepsPerRun: 400000})
}

type c07Sample struct {
	Nodes        int            `json:"nodes"`
	PerNode      []int          `json:"preloaded_per_node"`
	Shape        string         `json:"shape"`
	GossipMs     int            `json:"gossip_interval_ms"`
	Topology     string         `json:"topology"`
	FaultKinds   []string       `json:"fault_kinds_enabled,omitempty"`
	FaultPhaseS  int            `json:"fault_phase_virtual_s"`
	Created      int            `json:"created_during_run"`
	Union        int            `json:"union_size"`
	ConvergedInS float64        `json:"converged_after_fair_start_virtual_s"`
	BudgetS      float64        `json:"budget_virtual_s"`
	Messages     map[string]int `json:"messages_sent"`
	Restarts     int            `json:"restarts"`
}

type c07Node struct {
	name    string
	initial map[hash.SHA256Hash]bool
	lastCnt int
}

func c07Body(s *simkit.Sim, rc *simkit.RunCtx) {
	w := world.New(s, rc)
	defer w.Shutdown()
	sample := &c07Sample{}
	rc.Sample = sample
	corpus := world.NewCorpus("c7", func(label string, n int) int { return s.D.Decide("corpus "+label, n) })

	nn := 2 + s.D.Decide("nodes", 3)
	if nn == 4 && rc.Tier != "thorough" && s.D.Decide("nodes4", 2) == 0 {
		nn = 3
	}
	gossipMs := []int{500, 1000, 2000, 5000}[s.D.Decide("gossip", 4)]
	sample.Nodes, sample.GossipMs = nn, gossipMs
	shape := []string{"disjoint-branches", "one-far-behind", "mixed", "large-diff", "multi-page"}[c07Shape(s, rc)]
	sample.Shape = shape

	names := make([]string, nn)
	nodes := map[string]*c07Node{}
	opts := map[string]world.NodeOpts{}
	for i := 0; i < nn; i++ {
		name := fmt.Sprintf("n%d", i+1)
		names[i] = name
		nodes[name] = &c07Node{name: name, initial: map[hash.SHA256Hash]bool{}}
		opts[name] = world.NodeOpts{Name: name, DIDMethods: "nuts", NetConfig: func(c *network.Config) {
			c.ProtocolV2.GossipInterval = gossipMs
		}}
		if _, err := w.StartNode(opts[name]); err != nil {
			panic(err)
		}
	}
	ctx := context.Background()
	// ---- preload: a shared root and per-node DAGs ----
	root := corpus.Root()
	views := map[string][]*world.CTx{}
	addTo := func(name string, t *world.CTx) {
		if err := w.Nodes[name].State().Add(ctx, t.Tx, t.Payload); err != nil {
			panic(fmt.Sprintf("preload %s: %v", name, err))
		}
		nodes[name].initial[t.Ref] = true
		views[name] = append(views[name], t)
	}
	for _, name := range names {
		addTo(name, root)
	}
	union := map[hash.SHA256Hash]*world.CTx{root.Ref: root}
	sizes := make([]int, nn)
	multiVariant := s.D.Decide("multi-page-variant", 3)
	for i := range names {
		switch shape {
		case "disjoint-branches":
			sizes[i] = 3 + s.D.Decide("size", 40)
		case "one-far-behind":
			if i == 0 {
				sizes[i] = 40 + s.D.Decide("size", 60)
			} else {
				sizes[i] = s.D.Decide("size-small", 4)
			}
		case "mixed":
			sizes[i] = s.D.Decide("size", 70)
		case "large-diff":
			// more than one IBLT can decode
			sizes[i] = []int{260, 420, 30, 10}[i%4] + s.D.Decide("size", 40)
		case "multi-page":
			if multiVariant == 0 {
				sizes[i] = []int{1100, 40, 600, 5}[i%4] + s.D.Decide("size", 60)
			} else if multiVariant == 2 {
				// two or more pages that everybody has, then disjoint branches on a later page that together are more than one
				// IBLT can decode: the decode failure must lead back to a page from which the difference is reached again
				sizes[i] = []int{420, 430, 20, 5}[i%4] + s.D.Decide("size", 60)
			} else {
				// two long disjoint branches: differences on several pages on both sides
				sizes[i] = []int{1100, 1100, 20, 5}[i%4] + s.D.Decide("size", 60)
			}
		}
	}
	// a shared prefix that all nodes have (so that differences sit at various depths)
	shared := s.D.Decide("shared-prefix", 12)
	var sharedTxs []*world.CTx
	view0 := []*world.CTx{root}
	for k := 0; k < shared; k++ {
		t := extendOn(corpus, s, view0, "shared")
		view0 = append(view0, t)
		sharedTxs = append(sharedTxs, t)
		union[t.Ref] = t
	}
	if shape == "multi-page" && multiVariant == 2 {
		for _, t := range corpus.Chain(view0[len(view0)-1], 1030+s.D.Decide("shared-pages-extra", 600), "shared-chain") {
			sharedTxs = append(sharedTxs, t)
			union[t.Ref] = t
		}
		s.Info.Inc("shared-pages-then-large-difference")
	}
	for _, name := range names {
		for _, t := range sharedTxs {
			addTo(name, t)
		}
	}
	for i, name := range names {
		if sizes[i] > 200 {
			// long stretches as chains (cheap), the rest as random DAG
			chain := sizes[i] - 30
			from := views[name][len(views[name])-1]
			for _, t := range corpus.Chain(from, chain, name) {
				addTo(name, t)
				union[t.Ref] = t
			}
			sizes[i] = 30
		}
		for k := 0; k < sizes[i]; k++ {
			t := extendOn(corpus, s, views[name], name)
			addTo(name, t)
			union[t.Ref] = t
		}
		sample.PerNode = append(sample.PerNode, len(views[name]))
		nodes[name].lastCnt = len(views[name])
	}

	// ---- topology ----
	type edge struct{ a, b string }
	var edges []edge
	topo := s.D.Decide("topology", 2)
	if nn == 2 || topo == 0 {
		sample.Topology = "full-mesh"
		for i := 0; i < nn; i++ {
			for j := i + 1; j < nn; j++ {
				edges = append(edges, edge{names[i], names[j]})
			}
		}
	} else {
		sample.Topology = "chain"
		for i := 0; i+1 < nn; i++ {
			edges = append(edges, edge{names[i], names[i+1]})
		}
	}
	cut := map[edge]bool{}
	ensure := func() {
		for _, e := range edges {
			if cut[e] {
				continue
			}
			w.P2P.Connect(e.a, e.b, nil)
		}
	}

	// ---- faults ----
	f := w.F
	mode := s.D.Decide("faultmode", 5) // 0: fault-free batch
	if mode != 0 {
		for _, k := range []struct {
			k    string
			rate int
		}{{seams.NetDrop, 120}, {seams.NetDup, 80}, {seams.NetDelay, 150}, {seams.NetSendErr, 60}} {
			if s.D.Decide("enable "+k.k, 3) != 0 {
				f.Rates[k.k] = k.rate * (1 + s.D.Decide("rate-mul "+k.k, 3)) / 2
				sample.FaultKinds = append(sample.FaultKinds, k.k)
			}
		}
	}
	partitions := mode != 0 && s.D.Decide("partitions", 2) == 1
	restarts := 0
	if mode != 0 && s.D.Decide("restarts", 3) == 2 {
		restarts = 1 + s.D.Decide("restart-count", 2)
	}
	stale := mode != 0 && s.D.Decide("stale", 2) == 1
	creates := s.D.Decide("creates", 6)
	faultPhase := 20 + s.D.Decide("fault-phase", 100)
	if mode == 0 {
		faultPhase = 5
	}
	sample.FaultPhaseS = faultPhase

	// safety monitor at quiescent points
	checkSafety := func() {
		if s.Failed() {
			return
		}
		for _, name := range names {
			n := w.Nodes[name]
			if n == nil || n.Inc.Dead() {
				continue
			}
			cnt := 0
			for _, d := range n.State().Diagnostics() {
				if d.Name() == dag.TransactionCountDiagnostic {
					fmt.Sscan(fmt.Sprint(d.Result()), &cnt)
				}
			}
			if cnt < nodes[name].lastCnt {
				s.Fail("C07.monotone", "count", "node %s: number of transactions shrank %d -> %d", name, nodes[name].lastCnt, cnt)
				return
			}
			nodes[name].lastCnt = cnt
		}
	}
	lastSafety := 0
	s.OnQuiesce = append(s.OnQuiesce, func() {
		if s.Steps-lastSafety >= 40 {
			lastSafety = s.Steps
			checkSafety()
		}
	})

	s.Enable(true)
	f.Arm(true)
	ensure()
	// ---- fault phase: a script of events at decided virtual times ----
	type ev struct {
		at   int
		kind string
		arg  int
	}
	var script []ev
	for i := 0; i < creates; i++ {
		script = append(script, ev{s.D.Decide("create-at", faultPhase), "create", s.D.Decide("create-node", nn)})
	}
	if s.D.Decide("burst", 5) == 4 {
		// more transactions within one gossip interval than a gossip message carries
		script = append(script, ev{s.D.Decide("burst-at", faultPhase), "burst", s.D.Decide("burst-node", nn)})
	}
	if partitions {
		for i := 0; i < 1+s.D.Decide("partition-count", 3); i++ {
			at := s.D.Decide("partition-at", faultPhase)
			e := s.D.Decide("partition-edge", len(edges))
			script = append(script, ev{at, "cut", e}, ev{at + 1 + s.D.Decide("partition-len", 40), "heal", e})
		}
	}
	for i := 0; i < restarts; i++ {
		script = append(script, ev{s.D.Decide("restart-at", faultPhase), "restart", s.D.Decide("restart-node", nn)})
	}
	if stale {
		for i := 0; i < 1+s.D.Decide("stale-count", 4); i++ {
			script = append(script, ev{faultPhase/2 + s.D.Decide("stale-at", faultPhase/2+1), "stale", s.D.Decide("stale-edge", len(edges))})
		}
	}
	sort.SliceStable(script, func(i, j int) bool { return script[i].at < script[j].at })
	keys := map[string]string{}
	now := 0
	runEvent := func(e ev) {
		switch e.kind {
		case "create":
			name := names[e.arg]
			n := w.Nodes[name]
			if n == nil || n.Inc.Dead() {
				return
			}
			s.Do("create@"+name, time.Minute, func() {
				kid, ok := keys[name]
				var tpl network.Template
				payload := []byte(fmt.Sprintf("created-%s-%d", name, sample.Created))
				if !ok {
					ref, pub, err := n.Crypto.New(world.Ctx(), crypto.StringNamingFunc("key-"+name))
					if err != nil {
						return
					}
					keys[name] = ref.KID
					_ = pub
					kid = ref.KID
				}
				pub, err := n.Crypto.Resolve(world.Ctx(), kid)
				if err != nil {
					return
				}
				tpl = network.TransactionTemplate("foo/created", payload, kid).WithAttachKey(pub)
				tx, err := n.Net.CreateTransaction(world.Ctx(), tpl)
				if err == nil {
					union[tx.Ref()] = &world.CTx{Tx: tx, Ref: tx.Ref(), Valid: true, Payload: payload}
					sample.Created++
				}
			})
		case "burst":
			name := names[e.arg]
			n := w.Nodes[name]
			if n == nil || n.Inc.Dead() {
				return
			}
			count := 101 + s.D.Decide("burst-size", 60)
			s.Probes.Inc("burst-over-100")
			s.Do("burst@"+name, time.Minute, func() {
				from := views[name][len(views[name])-1]
				for _, t := range corpus.Chain(from, count, "burst-"+name) {
					if err := n.State().Add(ctx, t.Tx, t.Payload); err != nil {
						return
					}
					views[name] = append(views[name], t)
					union[t.Ref] = t
				}
			})
		case "cut":
			ed := edges[e.arg]
			cut[ed] = true
			if w.P2P.Disconnect(ed.a, ed.b) {
				s.Faults.Inc(seams.NetPartition)
			}
		case "heal":
			ed := edges[e.arg]
			delete(cut, ed)
			s.Faults.Inc(seams.NetHeal)
			ensure()
		case "restart":
			name := names[e.arg]
			s.Faults.Inc("crash.any-step")
			if _, err := w.Restart(name); err != nil {
				panic(err)
			}
			sample.Restarts++
			ensure()
		case "stale":
			ed := edges[e.arg]
			a, b := ed.a, ed.b
			if s.D.Decide("stale-dir", 2) == 1 {
				a, b = b, a
			}
			w.P2P.ReplayStale(a, b, s.D.Decide("stale-pick", 64))
		}
	}
	for _, e := range script {
		if e.at > now {
			s.Advance(time.Duration(e.at-now) * time.Second)
			now = e.at
		}
		if s.Failed() {
			return
		}
		runEvent(e)
	}
	if faultPhase > now {
		s.Advance(time.Duration(faultPhase-now) * time.Second)
	}
	if s.Failed() {
		return
	}

	// ---- fair suffix ----
	f.Arm(false)
	w.P2P.Fair = true
	for e := range cut {
		delete(cut, e)
	}
	ensure()
	fairStart := s.Now()
	fairStartSteps := s.Steps
	// the budget: derived from protocol constants with a wide margin (see DESIGN.md, C07)
	maxLC := uint32(0)
	for _, t := range union {
		if t.Tx != nil && t.Tx.Clock() > maxLC {
			maxLC = t.Tx.Clock()
		}
	}
	budget := 20 * (time.Duration(gossipMs)*time.Millisecond + 30*time.Second) * time.Duration(1+int(maxLC)/512+1+len(union)/300+1) * time.Duration(nn-1)
	sample.BudgetS = budget.Seconds()
	converged := func() bool {
		var first hash.SHA256Hash
		for i, name := range names {
			x, _ := w.Nodes[name].State().XOR(dag.MaxLamportClock)
			if i == 0 {
				first = x
			} else if !x.Equals(first) {
				return false
			}
		}
		// equal digests: compare against the union's size as well
		for _, name := range names {
			if nodes[name].lastCnt < len(union) {
				// refresh count
				cnt := 0
				for _, d := range w.Nodes[name].State().Diagnostics() {
					if d.Name() == dag.TransactionCountDiagnostic {
						fmt.Sscan(fmt.Sprint(d.Result()), &cnt)
					}
				}
				if cnt < len(union) {
					return false
				}
			}
		}
		return true
	}
	ok := s.RunUntil(converged, budget, 500*time.Millisecond)
	sample.ConvergedInS = (s.Now() - fairStart).Seconds()
	fairSteps := s.Steps - fairStartSteps
	if !ok && s.Overrun() && fairSteps < 150000 {
		// the run's step budget was spent before the fair suffix had a real chance: inconclusive
		return
	}
	sample.Union = len(union)
	sample.Messages = map[string]int{}
	for k, v := range w.P2P.Sent {
		sample.Messages[k] = v
	}
	if s.Failed() {
		return
	}
	s.Enable(false)
	checkSafety()
	if s.Failed() {
		return
	}
	// ---- final oracles ----
	for _, name := range names {
		st := w.Nodes[name].State()
		txs, err := st.FindBetweenLC(ctx, 0, dag.MaxLamportClock)
		if err != nil {
			s.Fail("C07.harness", "list", "%v", err)
			return
		}
		have := map[hash.SHA256Hash]bool{}
		for _, tx := range txs {
			have[tx.Ref()] = true
			if _, ok := union[tx.Ref()]; !ok {
				s.Fail("C07.sound", "foreign", "node %s holds transaction %s which no honest node created", name, tx.Ref())
				return
			}
		}
		for ref := range nodes[name].initial {
			if !have[ref] {
				s.Fail("C07.monotone", "lost", "node %s lost transaction %s it had at the start", name, ref)
				return
			}
		}
		if _, v := world.CheckFold(st, nil); v != nil {
			s.Fail("C07.sound", v.Invariant, "node %s: digests/indexes differ from its stored set: %s", name, v.Msg)
			return
		}
		if ok {
			for ref, t := range union {
				if !have[ref] {
					s.Fail("C07.converge", "missing-despite-equal-digest", "node %s misses %s although all digests are equal", name, ref)
					return
				}
				if t.Payload != nil {
					if p, _ := st.IsPayloadPresent(ctx, hash.SHA256Sum(t.Payload)); !p {
						s.Fail("C07.converge", "payload", "node %s has transaction %s without its public payload", name, ref)
						return
					}
				}
			}
		}
	}
	if !ok {
		missing := ""
		for _, name := range names {
			txs, _ := w.Nodes[name].State().FindBetweenLC(ctx, 0, dag.MaxLamportClock)
			missing += fmt.Sprintf(" %s=%d/%d", name, len(txs), len(union))
		}
		s.Fail("C07.converge", shape, "nodes did not converge to the union within %v of virtual time / %d scheduler steps after faults stopped (gossip %dms, %s):%s", s.Now()-fairStart, fairSteps, gossipMs, sample.Topology, missing)
		return
	}
	s.Info.Addn("max:converge-steps", fairSteps)
	s.Info.Addn("max:converge-virtual-ms", int(sample.ConvergedInS*1000))
	s.Info.Addn("max:converge-permille-of-budget", int(sample.ConvergedInS*1000/sample.BudgetS))
	s.Info.Addn("sum:converge-virtual-ms", int(sample.ConvergedInS*1000))
	rc.Nontrivial = len(union) > 1 && (s.NonFIFO > 0 || len(s.Faults.Map()) > 0)
}

func c07Shape(s *simkit.Sim, rc *simkit.RunCtx) int {
	v := s.D.Decide("shape", 20)
	switch {
	case v < 7:
		return 0
	case v < 12:
		return 1
	case v < 17:
		return 2
	case v < 19:
		return 3
	default:
		if rc.Tier == "thorough" || s.D.Decide("multi-page-in-quick", 2) == 1 {
			return 4
		}
		return 3
	}
}

// extendOn adds a valid transaction whose prevs are taken from the given view only.
func extendOn(c *world.Corpus, s *simkit.Sim, view []*world.CTx, label string) *world.CTx {
	// now and then a private transaction between parties that are not among these nodes: every node has the transaction,
	// none has (or gets) its payload, and it spreads like any other
	if s.D.Decide("private-tx", 12) == 11 {
		c.NextPAL = dag.EncryptedPAL{[]byte("opaque-participant-list-entry-1"), []byte("opaque-participant-list-entry-2")}
		s.Probes.Inc("private-transaction-without-payload")
	}
	return c.ExtendOn(view, label)
}
