package props

import (
	"context"
	"crypto/ecdsa"
	"encoding/json"
	"errors"
	"fmt"
	"time"

	"github.com/google/uuid"
	ssi "github.com/nuts-foundation/go-did"
	"github.com/nuts-foundation/go-did/did"
	"github.com/nuts-foundation/go-did/vc"
	"github.com/nuts-foundation/nuts-node/audit"
	nutscrypto "github.com/nuts-foundation/nuts-node/crypto"
	"github.com/nuts-foundation/nuts-node/crypto/dpop"
	"github.com/nuts-foundation/nuts-node/crypto/hash"
	"github.com/nuts-foundation/nuts-node/jsonld"
	"github.com/nuts-foundation/nuts-node/vcr/credential"
	"github.com/nuts-foundation/nuts-node/vcr/signature"
	"github.com/nuts-foundation/nuts-node/vcr/signature/proof"
	vcrtypes "github.com/nuts-foundation/nuts-node/vcr/types"
	"github.com/nuts-foundation/nuts-node/vdr/didnuts"
	"verifsim/simkit"
	"verifsim/world"
)

// C11, second world: revocations that travel over the did:nuts network.
//
// One real node (Network engine, DAG, notifier, VDR, VCR with its network ambassador, verifier and
// revocation store). The workload plays the other members: two honest issuers and an attacker, each
// with its own key and a did:nuts document published by a transaction the workload signs. Issuers
// publish JSON-LD credentials and revocations (JsonWebSignature2020 proofs made with the repo's own
// proof code and the workload's keys); the attacker publishes forged revocations. Revocations may be
// published before the credential they revoke (parallel branches of the DAG). The node is restarted
// at seeded points.
// Oracle (model: the set of credential ids with an admitted honest revocation):
//   - issuer-only: a credential without an honest revocation never verifies as revoked;
//   - effective: after settling, a credential with an admitted honest revocation verifies as revoked;
//   - permanent: once seen revoked, revoked at every later observation, also after restarts.

// c11Signer signs for a key id with whatever key the workload maps to it (a forger maps the victim's
// key id to its own key).
type c11Signer struct{ keys map[string]*ecdsa.PrivateKey }

func (c c11Signer) SignJWT(context.Context, map[string]interface{}, map[string]interface{}, string) (string, error) {
	panic("not used")
}
func (c c11Signer) SignDPoP(context.Context, dpop.DPoP, string) (string, error) { panic("not used") }
func (c c11Signer) SignJWS(ctx context.Context, payload []byte, headers map[string]interface{}, kid string, detached bool) (string, error) {
	k := c.keys[kid]
	if k == nil {
		return "", fmt.Errorf("no key for %s", kid)
	}
	return nutscrypto.SignJWS(ctx, payload, headers, k, detached)
}

type c11Member struct {
	name string
	id   did.DID
	key  *c9Key
	kid  string
}

type c11NetCred struct {
	id        ssi.URI
	cred      vc.VerifiableCredential
	json      []byte
	issuer    *c11Member
	published bool
	honestRev bool // an honest revocation of it was admitted to the DAG
	seenRev   bool // observed as revoked
}

type c11NetSample struct {
	World    string   `json:"world"`
	Ops      []string `json:"operations"`
	Restarts int      `json:"restarts"`
	Verifies int      `json:"verifications"`
}

func c11NetBody(s *simkit.Sim, rc *simkit.RunCtx) {
	sample := &c11NetSample{World: "network-revocations"}
	rc.Sample = sample
	w := world.New(s, rc)
	defer w.Shutdown()
	w.LogHook.Keep = debugGaps
	opts := world.NodeOpts{Name: "n1", DIDMethods: "nuts", Web: true}
	if _, err := w.StartNode(opts); err != nil {
		s.Fail("C11.harness", "start", "%v", err)
		return
	}
	node := func() *world.Node { return w.Nodes["n1"] }
	corpus := world.NewCorpus("c", func(label string, n int) int { return s.D.Decide("corpus "+label, n) })
	ctx := context.Background()
	actx := audit.Context(ctx, "sim", "Sim", "op")
	root := corpus.Root()
	if err := node().State().Add(ctx, root.Tx, root.Payload); err != nil {
		s.Fail("C11.harness", "root", "%v", err)
		return
	}
	head := root
	docTx := map[string]*world.CTx{}
	// publish signs a transaction on top of the given previous transaction (nil: the head) and offers it
	publish := func(payload []byte, payloadType string, key *c9Key, kid string, on *world.CTx, moveHead bool) (*world.CTx, error) {
		if on == nil {
			on = head
		}
		prevs, lc := []hash.SHA256Hash{on.Ref}, on.LC+1
		// a transaction signed by key id refers to the transaction of the signer's DID document (the key is resolved there)
		if d := docTx[kid]; d != nil && d.Ref != on.Ref {
			prevs = append(prevs, d.Ref)
			if d.LC+1 > lc {
				lc = d.LC + 1
			}
		}
		t, err := corpus.SignWith(prevs, lc, payload, payloadType, key.priv, kid)
		if err != nil {
			return nil, err
		}
		var addErr error
		if !s.Do("publish", 2*time.Minute, func() { addErr = node().State().Add(ctx, t.Tx, t.Payload) }) {
			return nil, errors.New("State.Add did not return")
		}
		if addErr == nil && moveHead {
			head = t
		}
		return t, addErr
	}
	// join two branches again so that later transactions have all of them as ancestors
	merge := func(branches ...*world.CTx) {
		prevs := []hash.SHA256Hash{head.Ref}
		lc := head.LC + 1
		for _, b := range branches {
			if b == nil || b.Ref == head.Ref {
				continue
			}
			prevs = append(prevs, b.Ref)
			if b.LC+1 > lc {
				lc = b.LC + 1
			}
		}
		if len(prevs) == 1 {
			return
		}
		t, err := corpus.SignWith(prevs, lc, []byte(fmt.Sprintf("merge-%d", lc)), "foo/merge", corpus.Keys[0], "")
		if err != nil {
			return
		}
		var addErr error
		s.Do("merge", 2*time.Minute, func() { addErr = node().State().Add(ctx, t.Tx, t.Payload) })
		if addErr == nil {
			head = t
		}
	}
	signer := c11Signer{keys: map[string]*ecdsa.PrivateKey{}}
	newMember := func(name string) *c11Member {
		k := newC9Key()
		kid, _ := didnuts.DIDKIDNamingFunc(k.priv.Public())
		u := did.MustParseDIDURL(kid)
		m := &c11Member{name: name, id: u.DID, key: k, kid: kid}
		doc := didnuts.CreateDocument()
		doc.ID = m.id
		vm := vmFor(m.id, k)
		doc.AddCapabilityInvocation(vm)
		doc.AddAssertionMethod(vm)
		payload, _ := json.Marshal(doc)
		t, err := publish(payload, didnuts.DIDDocumentType, k, "", nil, true)
		if err != nil {
			s.Fail("C11.harness", "create-did", "honest DID creation rejected: %v", err)
			return nil
		}
		docTx[kid] = t
		signer.keys[kid] = k.priv
		return m
	}
	issuers := []*c11Member{newMember("issuerX"), newMember("issuerY")}
	attacker := newMember("attacker")
	if s.Failed() {
		return
	}
	s.Advance(2 * time.Second)
	suite := func(sg c11Signer) signature.JSONWebSignature2020 {
		return signature.JSONWebSignature2020{ContextLoader: node().Parts["jsonld"].(jsonld.JSONLD).DocumentLoader(), Signer: sg}
	}
	signDoc := func(doc interface{}, sg c11Signer, kid string, created time.Time) ([]byte, error) {
		asMap := map[string]interface{}{}
		b, _ := json.Marshal(doc)
		_ = json.Unmarshal(b, &asMap)
		ldProof := proof.NewLDProof(proof.ProofOptions{Created: created})
		var out interface{}
		var err error
		if !s.Do("sign", time.Minute, func() { out, err = ldProof.Sign(actx, asMap, suite(sg), kid) }) {
			return nil, errors.New("sign did not return")
		}
		if err != nil {
			return nil, err
		}
		return json.Marshal(out)
	}
	var creds []*c11NetCred
	newCred := func(iss *c11Member) *c11NetCred {
		id := ssi.MustParseURI(iss.id.String() + "#" + uuid.NewString())
		doc := map[string]interface{}{
			"@context":     []string{"https://www.w3.org/2018/credentials/v1", "https://nuts.nl/credentials/v1"},
			"id":           id.String(),
			"type":         []string{"NutsOrganizationCredential", "VerifiableCredential"},
			"issuer":       iss.id.String(),
			"issuanceDate": time.Now().UTC().Format(time.RFC3339),
			"credentialSubject": map[string]interface{}{
				"id":           attacker.id.String(),
				"organization": map[string]interface{}{"name": "Org " + id.Fragment[:6], "city": "Sim"},
			},
		}
		b, err := signDoc(doc, signer, iss.kid, time.Now())
		if err != nil {
			s.Fail("C11.harness", "sign-credential", "%v", err)
			return nil
		}
		c := &c11NetCred{id: id, json: b, issuer: iss}
		if err := json.Unmarshal(b, &c.cred); err != nil {
			s.Fail("C11.harness", "parse-credential", "%v", err)
			return nil
		}
		creds = append(creds, c)
		return c
	}
	buildRevocation := func(issuer ssi.URI, subject ssi.URI, sg c11Signer, kid string) ([]byte, error) {
		rev := credential.BuildRevocation(issuer, subject)
		return signDoc(rev, sg, kid, time.Now())
	}
	restarted := false
	observe := func(when string) bool {
		ver := node().VCR().Verifier()
		for _, c := range creds {
			if !c.published {
				continue
			}
			var err error
			if !s.Do("verify", 2*time.Minute, func() { err = ver.Verify(c.cred, true, true, nil) }) {
				s.Fail("C11.harness", "verify", "Verify did not return")
				return false
			}
			sample.Verifies++
			revoked := errors.Is(err, vcrtypes.ErrRevoked)
			switch {
			case revoked && !c.honestRev:
				s.Fail("C11.issuer-only", "network:"+when, "credential %s of %s verifies as revoked although its issuer never revoked it (operations: %v)", c.id.Fragment, c.issuer.name, sample.Ops)
				return false
			case !revoked && c.seenRev:
				s.Fail("C11.permanent", "network:"+when, "credential %s verified as revoked before and no longer does (%v) (operations: %v)", c.id.Fragment, err, sample.Ops)
				return false
			case !revoked && err != nil && !restarted:
				s.Fail("C11.harness", "verify", "an honest credential does not verify: %v", err)
				return false
			}
			if revoked {
				c.seenRev = true
			}
		}
		return true
	}
	forgeries := []string{"other-member-as-issuer", "names-issuer-foreign-key", "names-issuer-key-id-forged-signature", "second-issuer", "own-namespace-same-uuid", "tampered-subject-after-signing", "tampered-issuer-after-signing"}
	nOps := 5 + s.D.Decide("ops", 8)
	for i := 0; i < nOps && !s.Failed(); i++ {
		kinds := []string{"issue", "issue", "revoke", "revoke-before-credential", "forge", "forge", "forge", "restart"}
		kind := kinds[s.D.Decide("op", len(kinds))]
		var live []*c11NetCred
		for _, c := range creds {
			if c.published && !c.honestRev {
				live = append(live, c)
			}
		}
		if len(live) == 0 && (kind == "revoke" || kind == "forge") {
			kind = "issue"
		}
		switch kind {
		case "issue":
			iss := issuers[s.D.Decide("issuer", len(issuers))]
			c := newCred(iss)
			if c == nil {
				return
			}
			if _, err := publish(c.json, vcrtypes.VcDocumentType, iss.key, iss.kid, nil, true); err != nil {
				s.Fail("C11.harness", "publish-credential", "%v", err)
				return
			}
			c.published = true
			sample.Ops = append(sample.Ops, fmt.Sprintf("issue %s by %s", c.id.Fragment[:8], iss.name))
		case "revoke":
			c := live[s.D.Decide("credential", len(live))]
			b, err := buildRevocation(c.issuer.id.URI(), c.id, signer, c.issuer.kid)
			if err != nil {
				s.Fail("C11.harness", "sign-revocation", "%v", err)
				return
			}
			if _, err := publish(b, vcrtypes.RevocationLDDocumentType, c.issuer.key, c.issuer.kid, nil, true); err != nil {
				s.Fail("C11.harness", "publish-revocation", "%v", err)
				return
			}
			c.honestRev = true
			sample.Ops = append(sample.Ops, fmt.Sprintf("revoke %s by its issuer %s", c.id.Fragment[:8], c.issuer.name))
			s.Probes.Inc("network-revocation-by-issuer")
		case "revoke-before-credential":
			iss := issuers[s.D.Decide("issuer", len(issuers))]
			c := newCred(iss)
			if c == nil {
				return
			}
			b, err := buildRevocation(iss.id.URI(), c.id, signer, iss.kid)
			if err != nil {
				s.Fail("C11.harness", "sign-revocation", "%v", err)
				return
			}
			base := head
			rt, err := publish(b, vcrtypes.RevocationLDDocumentType, iss.key, iss.kid, base, false)
			if err != nil {
				s.Fail("C11.harness", "publish-revocation", "%v", err)
				return
			}
			c.honestRev = true
			s.Advance(time.Duration(1+s.D.Decide("gap", 5)) * time.Second)
			ct, err := publish(c.json, vcrtypes.VcDocumentType, iss.key, iss.kid, base, false)
			if err != nil {
				s.Fail("C11.harness", "publish-credential", "%v", err)
				return
			}
			c.published = true
			merge(rt, ct)
			sample.Ops = append(sample.Ops, fmt.Sprintf("revocation of %s by its issuer %s arrives before the credential", c.id.Fragment[:8], iss.name))
			s.Probes.Inc("network-revocation-before-credential")
		case "forge":
			c := live[s.D.Decide("credential", len(live))]
			how := forgeries[s.D.Decide("forgery", len(forgeries))]
			other := issuers[0]
			if other == c.issuer {
				other = issuers[1]
			}
			var b []byte
			var err error
			txKey, txKid := attacker.key, attacker.kid
			switch how {
			case "other-member-as-issuer":
				b, err = buildRevocation(attacker.id.URI(), c.id, signer, attacker.kid)
			case "names-issuer-foreign-key":
				b, err = buildRevocation(c.issuer.id.URI(), c.id, signer, attacker.kid)
			case "names-issuer-key-id-forged-signature":
				forger := c11Signer{keys: map[string]*ecdsa.PrivateKey{c.issuer.kid: attacker.key.priv}}
				b, err = buildRevocation(c.issuer.id.URI(), c.id, forger, c.issuer.kid)
			case "second-issuer":
				b, err = buildRevocation(other.id.URI(), c.id, signer, other.kid)
				txKey, txKid = other.key, other.kid
			case "own-namespace-same-uuid":
				b, err = buildRevocation(attacker.id.URI(), ssi.MustParseURI(attacker.id.String()+"#"+c.id.Fragment), signer, attacker.kid)
			case "tampered-subject-after-signing", "tampered-issuer-after-signing":
				// a revocation the attacker made validly for a credential id of its own, rewritten afterwards
				b, err = buildRevocation(attacker.id.URI(), ssi.MustParseURI(attacker.id.String()+"#"+uuid.NewString()), signer, attacker.kid)
				if err == nil {
					m := map[string]interface{}{}
					_ = json.Unmarshal(b, &m)
					m["subject"] = c.id.String()
					if how == "tampered-issuer-after-signing" {
						m["issuer"] = c.issuer.id.String()
					}
					b, _ = json.Marshal(m)
				}
			}
			if err != nil {
				s.Fail("C11.harness", "sign-forgery", "%v", err)
				return
			}
			// the DAG admits it (correctly signed transaction of a known member); the VCR must refuse the content
			if _, err := publish(b, vcrtypes.RevocationLDDocumentType, txKey, txKid, nil, true); err != nil {
				s.Fail("C11.harness", "publish-forgery", "%v", err)
				return
			}
			sample.Ops = append(sample.Ops, fmt.Sprintf("forged revocation of %s (%s): %s", c.id.Fragment[:8], c.issuer.name, how))
			s.Probes.Inc("forged-network-revocation")
		case "restart":
			if _, err := w.Restart("n1"); err != nil {
				s.Fail("C11.harness", "restart", "%v", err)
				return
			}
			restarted = true
			sample.Restarts++
			sample.Ops = append(sample.Ops, "restart")
		}
		s.Advance(time.Duration(1+s.D.Decide("pause", 10)) * time.Second)
		if !observe(kind) {
			return
		}
	}
	if s.Failed() {
		return
	}
	// settle, then every honest revocation must be effective
	s.Advance(3 * time.Minute)
	if !observe("settled") {
		return
	}
	for _, c := range creds {
		if c.published && c.honestRev && !c.seenRev {
			s.Fail("C11.effective", "network:valid-after-revocation", "credential %s of %s was revoked by its issuer over the network (transaction admitted) and still verifies (operations: %v)", c.id.Fragment, c.issuer.name, sample.Ops)
			return
		}
	}
	rc.Nontrivial = len(sample.Ops) > 2
}
