package props

import (
	"context"
	"fmt"
	"sync"
	"time"

	"github.com/nuts-foundation/go-stoabs"
	"github.com/nuts-foundation/nuts-node/crypto/hash"
	"github.com/nuts-foundation/nuts-node/network"
	"github.com/nuts-foundation/nuts-node/network/dag"
	"verifsim/seams"
	"verifsim/simkit"
	"verifsim/world"
)

// offer is one submission of a corpus transaction to a node.
type offer struct {
	T        *world.CTx
	Task     string
	Start    int // scheduler step at call
	End      int // scheduler step at return
	Err      error
	Gen      int  // incarnation the offer went to
	Crashed  bool // the incarnation died during the call
	Parsed   bool
	FaultsAt int // number of faults fired before the call returned
}

// ledger records receiver calls of scripted subscribers (only calls made by live incarnations).
type ledger struct {
	mu    sync.Mutex
	calls map[string]map[hash.SHA256Hash]int
	log   []string
}

func newLedger() *ledger { return &ledger{calls: map[string]map[hash.SHA256Hash]int{}} }
func (l *ledger) add(sub string, ref hash.SHA256Hash) {
	l.mu.Lock()
	defer l.mu.Unlock()
	if l.calls[sub] == nil {
		l.calls[sub] = map[hash.SHA256Hash]int{}
	}
	l.calls[sub][ref]++
}
func (l *ledger) count(sub string, ref hash.SHA256Hash) int {
	l.mu.Lock()
	defer l.mu.Unlock()
	return l.calls[sub][ref]
}

// dagHarness drives one real Network engine node with corpus transactions.
type dagHarness struct {
	s      *simkit.Sim
	rc     *simkit.RunCtx
	w      *world.World
	corpus *world.Corpus
	led    *ledger
	mu     sync.Mutex
	offers []*offer
	acked  map[hash.SHA256Hash]int // ref -> step of first nil return
	name   string
	// foldEvery: evaluate the C08 fold at quiescent points every k steps (0: never)
	foldEvery int
	foldRuns  int
	lastFold  int
	lastMark  int64
	// foldInvariant renames fold violations for properties that use the fold as part of their own oracle
	foldInvariant string
}

func newDagHarness(s *simkit.Sim, rc *simkit.RunCtx) *dagHarness {
	h := &dagHarness{s: s, rc: rc, w: world.New(s, rc), led: newLedger(), acked: map[hash.SHA256Hash]int{}, name: "n1"}
	h.corpus = world.NewCorpus("c", func(label string, n int) int { return s.D.Decide("corpus "+label, n) })
	return h
}

func (h *dagHarness) nodeOpts() world.NodeOpts {
	return world.NodeOpts{Name: h.name, DIDMethods: "nuts", BeforeStart: func(n *world.Node) {
		inc := n.Inc
		err := n.Net.Subscribe("led", func(ev dag.Event) (bool, error) {
			if inc.Dead() {
				return false, seams.ErrCrashed
			}
			h.led.add("led", ev.Hash)
			return true, nil
		}, n.Net.WithPersistency(), network.WithSelectionFilter(func(ev dag.Event) bool { return ev.Type == dag.TransactionEventType }))
		if err != nil {
			panic(err)
		}
	}}
}

func (h *dagHarness) start() *world.Node {
	n, err := h.w.StartNode(h.nodeOpts())
	if err != nil {
		panic(fmt.Sprintf("node start: %v", err))
	}
	return n
}

func (h *dagHarness) node() *world.Node { return h.w.Nodes[h.name] }

// offerTx submits one corpus transaction through State.Add (what both CreateTransaction and
// the peer-facing handlers end in) and records the outcome.
func (h *dagHarness) offerTx(task string, t *world.CTx) *offer {
	n := h.node()
	o := &offer{T: t, Task: task, Start: h.s.Steps, Gen: n.Inc.Gen}
	f0 := totalFaults(h.s)
	defer func() { o.FaultsAt = totalFaults(h.s) - f0 }()
	tx := t.Tx
	if tx == nil {
		// bytes that do not parse cannot be offered to the DAG: rejected at the parser
		var err error
		tx, err = dag.ParseTransaction(t.Raw)
		if err != nil {
			o.Err = err
			o.End = h.s.Steps
			h.record(o)
			return o
		}
		t.Tx = tx
	}
	o.Parsed = true
	// the caller's context can be cancelled by the KV seam inside a write transaction (fault ctx.cancel-in-write-tx)
	ctx, cancel := context.WithCancel(context.Background())
	ctx = context.WithValue(ctx, seams.CancelKey{}, cancel)
	o.Err = n.State().Add(ctx, tx, t.Payload)
	cancel()
	o.End = h.s.Steps
	o.Crashed = n.Inc.Dead()
	h.record(o)
	return o
}

func (h *dagHarness) record(o *offer) {
	h.mu.Lock()
	defer h.mu.Unlock()
	h.offers = append(h.offers, o)
	if o.Err == nil && !o.Crashed {
		if _, ok := h.acked[o.T.Ref]; !ok {
			h.acked[o.T.Ref] = o.End
		}
	}
}

// restartCrashed is installed as quiescence callback: nodes that hit a crash point are
// rebuilt from their files before anything else runs.
func (h *dagHarness) restartCrashed() {
	for _, name := range h.w.TakeCrashed() {
		h.s.Probes.Inc("restart-after-crash")
		if _, err := h.w.Restart(name); err != nil {
			panic(fmt.Sprintf("restart %s: %v", name, err))
		}
	}
}

// foldAtQuiescence evaluates the reference fold when no rolled-back transaction's reload is
// pending (between a rollback and its OnRollback handler derived state may legitimately lag).
func (h *dagHarness) foldAtQuiescence() {
	if h.foldEvery == 0 || h.s.Failed() {
		return
	}
	if h.s.Steps-h.lastFold < h.foldEvery && h.s.ParkedCount() > 0 {
		return
	}
	n := h.node()
	if n == nil || n.Inc.Dead() {
		return
	}
	kv := n.DagKV()
	if kv == nil || kv.RollbackPending.Load() != 0 {
		return
	}
	if mark := kv.Commits.Load()*1000003 + kv.Rollbacks.Load() + int64(n.Inc.Gen)<<40; mark == h.lastMark {
		return // nothing was written since the last evaluation
	} else {
		h.lastMark = mark
	}
	h.lastFold = h.s.Steps
	h.foldRuns++
	if _, v := world.CheckFoldLight(n.State()); v != nil {
		inv, site := v.Invariant, "quiescent"
		if h.foldInvariant != "" {
			inv, site = h.foldInvariant, "quiescent:"+v.Invariant
		}
		h.s.Fail(inv, site, "%s (step %d)", v.Msg, h.s.Steps)
	}
}

// jobRefs lists the event keys present in a notifier's job shelf.
func jobRefs(kv *seams.KV, sub string) map[hash.SHA256Hash]bool {
	out := map[hash.SHA256Hash]bool{}
	_ = kv.Real.ReadShelf(context.Background(), "_"+sub+"_jobs", func(r stoabs.Reader) error {
		return r.Iterate(func(k stoabs.Key, v []byte) error {
			out[hash.FromSlice(k.Bytes())] = true
			return nil
		}, stoabs.BytesKey{})
	})
	return out
}

func (h *dagHarness) stored() (map[hash.SHA256Hash]dag.Transaction, error) {
	txs, err := h.node().State().FindBetweenLC(context.Background(), 0, dag.MaxLamportClock)
	if err != nil {
		return nil, err
	}
	m := map[hash.SHA256Hash]dag.Transaction{}
	for _, t := range txs {
		m[t.Ref()] = t
	}
	return m, nil
}

func (h *dagHarness) finish() {
	h.w.Shutdown()
}

var _ = time.Second

func totalFaults(s *simkit.Sim) int {
	n := 0
	for _, v := range s.Faults.Map() {
		n += v
	}
	return n
}
