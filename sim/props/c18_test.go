package props

import (
	"encoding/json"
	"errors"
	"fmt"
	"io"
	"net"
	"net/http"
	"net/url"
	"strings"
	"testing"

	"github.com/nuts-foundation/go-did/did"
	"github.com/nuts-foundation/nuts-node/vdr/resolver"
	"verifsim/seams"
	"verifsim/simkit"
	"verifsim/world"
)

// C18 — DID resolution binds the document to the identifier and to the right origin.
//
// World B, one node (plus a second one hosting a did:web subject). did:web identifiers are
// built from components (domain, optional port, path segments, and hostile variants: IP
// literals, user-info, encoded separators in the host) and resolved through the node's real
// resolver against scripted remote servers on the simulated HTTP transport, which records every
// outbound request: correct document, other id, redirects to another host / to http, wrong
// content type, errors. Locally managed DIDs must resolve without any request, before and after
// deactivation.

func TestC18(t *testing.T) {
	simkit.Main(t, simkit.Spec{Property: "C18", World: "B/2nodes", Body: c18Body, MaxStepsPerRun: 20000})
}

type c18Sample struct {
	Cases []string `json:"cases"`
}

type c18Case struct {
	kind     string // identifier shape
	server   string // scripted server behaviour
	didStr   string
	host     string // host[:port] the identifier encodes ("" for identifiers that must be refused)
	segments []string
}

func didDocFor(id string) []byte {
	b, _ := json.Marshal(map[string]interface{}{
		"@context": []string{"https://www.w3.org/ns/did/v1"},
		"id":       id,
	})
	return b
}

func jsonResp(status int, ct string, body []byte, hdr map[string]string) *http.Response {
	h := http.Header{}
	if ct != "" {
		h.Set("Content-Type", ct)
	}
	for k, v := range hdr {
		h.Set(k, v)
	}
	return &http.Response{StatusCode: status, Status: fmt.Sprintf("%d %s", status, http.StatusText(status)), Header: h, Body: io.NopCloser(strings.NewReader(string(body))), ProtoMajor: 1, ProtoMinor: 1}
}

func c18Body(s *simkit.Sim, rc *simkit.RunCtx) {
	sample := &c18Sample{}
	rc.Sample = sample
	w := world.New(s, rc)
	defer w.Shutdown()
	n, err := w.StartNode(world.NodeOpts{Name: "nodea", DIDMethods: "web", Web: true})
	if err != nil {
		s.Fail("C18.harness", "start", "%v", err)
		return
	}
	other, err := w.StartNode(world.NodeOpts{Name: "nodeb", DIDMethods: "web", Web: true})
	if err != nil {
		s.Fail("C18.harness", "start", "%v", err)
		return
	}
	w.HTTP.KeepBodies = true
	s.Enable(true)

	resolve := func(idStr string, allowDeactivated bool) (*did.Document, error, []seams.HTTPRecord) {
		before := w.HTTP.Count()
		var doc *did.Document
		var rerr error
		id, perr := did.ParseDID(idStr)
		if perr != nil {
			return nil, perr, nil
		}
		s.Do("resolve", 0, func() {})
		doc, _, rerr = n.VDR.Resolve(*id, &resolver.ResolveMetadata{AllowDeactivated: allowDeactivated})
		return doc, rerr, w.HTTP.Since(before)
	}

	// ---- origin checks on every outbound request ----
	checkRequests := func(c c18Case, reqs []seams.HTTPRecord) bool {
		for ri, r := range reqs {
			u, _ := url.Parse(r.URL)
			hostOnly := r.Host
			if h, _, err := net.SplitHostPort(r.Host); err == nil {
				hostOnly = h
			}
			hostOnly = strings.Trim(hostOnly, "[]")
			switch {
			case r.Scheme != "https" && ri > 0 && c.server == "redirect-http":
				s.Fail("C18.origin", "followed-redirect-to-http", "resolving %s (%s) followed a redirect to plain http: %s", c.didStr, c.kind, r.URL)
				return false
			case r.Scheme != "https":
				s.Fail("C18.origin", "scheme:"+c.kind+"/"+c.server, "resolving %s made a request over %s: %s", c.didStr, r.Scheme, r.URL)
				return false
			case net.ParseIP(hostOnly) != nil:
				s.Fail("C18.origin", "ip-address:"+c.kind, "resolving %s made a request to an IP address: %s", c.didStr, r.URL)
				return false
			case u != nil && u.User != nil:
				s.Fail("C18.origin", "user-info:"+c.kind, "resolving %s made a request with user-info: %s", c.didStr, r.URL)
				return false
			case c.host == "":
				s.Fail("C18.origin", "refused-identifier:"+c.kind, "resolving %s, which does not name a plain domain, made a request: %s", c.didStr, r.URL)
				return false
			case !strings.EqualFold(r.Host, c.host) && ri > 0 && c.server == "redirect-other-host" && r.Host == "attacker.sim":
				s.Fail("C18.origin", "followed-redirect-to-other-host", "resolving %s (%s) followed a redirect to another host: %s", c.didStr, c.kind, r.URL)
				return false
			case !strings.EqualFold(r.Host, c.host):
				s.Fail("C18.origin", "other-host:"+c.kind+"/"+c.server, "resolving %s made a request to %s, the identifier encodes %s: %s", c.didStr, r.Host, c.host, r.URL)
				return false
			}
			if ri > 0 {
				continue // a redirect on the same host may name another path
			}
			// the path carries the identifier's segments, in order, and ends in did.json
			p := r.Path
			if c.kind == "encoded-slash-in-segment" {
				// judged on the path as it goes over the wire: as many segments as the identifier has, each the same after decoding
				wire := strings.Split(strings.TrimPrefix(u.EscapedPath(), "/"), "/")
				okPath := len(wire) == len(c.segments)+1 && wire[len(wire)-1] == "did.json"
				for i := 0; okPath && i < len(c.segments); i++ {
					a, _ := url.PathUnescape(wire[i])
					b, _ := url.PathUnescape(c.segments[i])
					okPath = a == b
				}
				if !okPath {
					s.Fail("C18.origin", "path:encoded-slash-in-segment", "resolving %s requested path %s: the identifier has %d path segments, an encoded slash inside a segment became a path separator", c.didStr, u.EscapedPath(), len(c.segments))
					return false
				}
				continue
			}
			if c.kind == "dot-segments" {
				if want := "/" + strings.Join(c.segments, "/") + "/did.json"; p != want {
					s.Fail("C18.origin", "path:dot-segments", "resolving %s requested path %s, the identifier encodes %s", c.didStr, p, want)
					return false
				}
				continue
			}
			if !strings.HasSuffix(p, "/did.json") {
				s.Fail("C18.origin", "path:"+c.kind, "resolving %s requested %s", c.didStr, r.URL)
				return false
			}
			rest := p
			for _, seg := range c.segments {
				dec, _ := url.PathUnescape(seg)
				i := strings.Index(rest, "/"+dec)
				if i < 0 {
					i = strings.Index(rest, "/"+seg)
				}
				if i < 0 {
					s.Fail("C18.origin", "path:"+c.kind, "resolving %s requested %s, which lacks path segment %q", c.didStr, r.URL, seg)
					return false
				}
				rest = rest[i+1:]
			}
			if len(c.segments) == 0 && p != "/.well-known/did.json" {
				s.Fail("C18.origin", "path:"+c.kind, "resolving %s (no path) requested %s", c.didStr, r.URL)
				return false
			}
		}
		return true
	}

	// ---- generated identifiers ----
	ncases := 3 + s.D.Decide("cases", 5)
	shapes := []string{"domain", "domain", "domain-port", "domain-path", "domain-port-path", "mixed-case", "encoded-segment", "encoded-slash-in-segment", "dot-segments", "dot-segments",
		"ipv4", "ipv6", "ipv4-port", "ipv6-port", "user-info", "user-info-port", "encoded-slash-in-host", "encoded-query-in-host", "encoded-fragment-in-host"}
	servers := []string{"correct", "correct", "other-id", "redirect-other-host", "redirect-http", "redirect-same-host", "content-type-html", "status-500", "not-found"}
	for ci := 0; ci < ncases && !s.Failed(); ci++ {
		c := c18Case{kind: shapes[s.D.Decide("shape", len(shapes))], server: servers[s.D.Decide("server", len(servers))]}
		domain := fmt.Sprintf("remote%d.sim", s.D.Decide("domain", 5))
		port := ""
		var segs []string
		switch c.kind {
		case "domain":
		case "domain-port":
			port = "8443"
		case "domain-path":
			segs = []string{"users", fmt.Sprintf("u%d", s.D.Decide("user", 50))}
		case "domain-port-path":
			port = "444"
			segs = []string{"iam", "x"}
		case "mixed-case":
			domain = "Remote" + fmt.Sprint(s.D.Decide("domain", 5)) + ".SIM"
		case "encoded-segment":
			segs = []string{"alice%2Band%2Bbob", "p"}
		case "encoded-slash-in-segment":
			// one segment that contains an encoded slash: it stays one segment (another identifier names the path with a real slash)
			segs = [][]string{{"x", "y%2Fz"}, {"tenants%2Fadmin"}, {"a", "b%2F..%2Fc", "d"}}[s.D.Decide("encoded-slash", 3)]
		case "dot-segments":
			// "." and ".." are path segments like any other: refused, or requested as they are - never collapsed into another path
			segs = [][]string{{"users", "..", "admin"}, {".", "x"}, {"tenants", "x", "..", "..", ".."}, {"a", ".", "b"}, {".."}}[s.D.Decide("dots", 5)]
		}
		hostPart := domain
		c.host = domain
		if port != "" {
			hostPart += "%3A" + port
			c.host += ":" + port
		}
		switch c.kind {
		case "ipv4":
			hostPart, c.host = "10.1.2.3", ""
		case "ipv6":
			hostPart, c.host = "%5B%3A%3A1%5D", ""
		case "ipv4-port":
			hostPart, c.host = "10.1.2.3%3A8443", ""
		case "ipv6-port":
			hostPart, c.host = "%5B%3A%3A1%5D%3A8443", ""
		case "user-info-port":
			hostPart, c.host = "admin%40"+domain+"%3A8443", ""
		case "user-info":
			hostPart, c.host = "admin%40"+domain, ""
		case "encoded-slash-in-host":
			hostPart, c.host = domain+"%2Fevil", ""
		case "encoded-query-in-host":
			hostPart, c.host = domain+"%3Fx%3D1", ""
		case "encoded-fragment-in-host":
			hostPart, c.host = domain+"%23frag", ""
		}
		c.didStr = "did:web:" + hostPart
		if len(segs) > 0 {
			c.didStr += ":" + strings.Join(segs, ":")
		}
		c.segments = segs
		// ---- scripted servers ----
		served := didDocFor(c.didStr)
		attackerHost := "attacker.sim"
		handler := func(req *http.Request) *http.Response {
			if !strings.HasSuffix(req.URL.Path, "/did.json") {
				return jsonResp(404, "text/plain", []byte("not found"), nil)
			}
			switch c.server {
			case "correct":
				return jsonResp(200, "application/did+json", served, nil)
			case "other-id":
				return jsonResp(200, "application/json", didDocFor("did:web:someone-else.sim"), nil)
			case "redirect-other-host":
				return jsonResp(302, "", nil, map[string]string{"Location": "https://" + attackerHost + "/stolen/did.json"})
			case "redirect-http":
				return jsonResp(302, "", nil, map[string]string{"Location": "http://" + req.URL.Host + req.URL.Path})
			case "redirect-same-host":
				if strings.HasPrefix(req.URL.Path, "/moved") {
					return jsonResp(200, "application/did+json", served, nil)
				}
				return jsonResp(302, "", nil, map[string]string{"Location": "https://" + req.URL.Host + "/moved" + req.URL.Path})
			case "content-type-html":
				return jsonResp(200, "text/html", served, nil)
			case "status-500":
				return jsonResp(500, "text/plain", []byte("boom"), nil)
			}
			return jsonResp(404, "text/plain", []byte("not found"), nil)
		}
		for _, h := range []string{c.host, strings.ToLower(c.host), domain, strings.ToLower(domain), domain + ":8443", "10.1.2.3", "[::1]", "10.1.2.3:8443", "[::1]:8443", "admin@" + domain} {
			if h != "" {
				w.HTTP.Handle(h, handler)
			}
		}
		// the attacker serves a document that claims the requested identifier
		w.HTTP.Handle(attackerHost, func(req *http.Request) *http.Response { return jsonResp(200, "application/did+json", served, nil) })

		doc, rerr, reqs := resolve(c.didStr, false)
		sample.Cases = append(sample.Cases, fmt.Sprintf("%s %s -> %s err=%v requests=%d", c.kind, c.server, c.didStr, rerr != nil, len(reqs)))
		s.Info.Inc("case:" + c.kind + "/" + c.server)
		if !checkRequests(c, reqs) {
			return
		}
		if rerr == nil {
			if doc == nil || doc.ID.String() != c.didStr {
				s.Fail("C18.binding", c.kind+"/"+c.server, "resolving %s returned a document with id %v", c.didStr, doc.ID)
				return
			}
			if c.host == "" {
				s.Fail("C18.origin", "refused-identifier:"+c.kind, "%s resolved although it does not name a plain domain", c.didStr)
				return
			}
			switch c.server {
			case "other-id", "content-type-html", "status-500", "not-found", "redirect-other-host", "redirect-http":
				s.Fail("C18.binding", "resolved:"+c.server, "%s resolved although the server answered with %s", c.didStr, c.server)
				return
			}
		} else if c.host != "" && c.server == "correct" && c.kind != "dot-segments" {
			s.Fail("C18.binding", "correct-refused:"+c.kind, "%s did not resolve although its host served the correct document: %v", c.didStr, rerr)
			return
		}
	}
	if s.Failed() {
		return
	}

	// ---- locally managed DIDs: no network access; deactivation ----
	dids, err := n.CreateSubject("local")
	if err != nil {
		s.Fail("C18.harness", "subject", "%v", err)
		return
	}
	doc, rerr, reqs := resolve(dids[0], false)
	if rerr != nil || doc == nil || doc.ID.String() != dids[0] {
		s.Fail("C18.local", "own-did", "the node's own DID %s does not resolve: %v", dids[0], rerr)
		return
	}
	if len(reqs) != 0 {
		s.Fail("C18.local", "network-access", "resolving the node's own DID %s made %d outbound request(s): %s", dids[0], len(reqs), reqs[0].URL)
		return
	}
	// a DID managed by the other node resolves from that node, over https, from exactly its host
	odids, err := other.CreateSubject("remote")
	if err == nil {
		c := c18Case{kind: "other-node", server: "real-node", didStr: odids[0], host: "nodeb.sim", segments: strings.Split(strings.TrimPrefix(odids[0], "did:web:nodeb.sim:"), ":")}
		doc, rerr, reqs := resolve(odids[0], false)
		if rerr != nil || doc.ID.String() != odids[0] {
			s.Fail("C18.binding", "other-node", "DID %s of the other node does not resolve: %v", odids[0], rerr)
			return
		}
		if !checkRequests(c, reqs) {
			return
		}
	}
	if s.D.Decide("deactivate", 2) == 1 {
		if err := n.VDR.Deactivate(world.Ctx(), "local"); err != nil {
			s.Fail("C18.harness", "deactivate", "%v", err)
			return
		}
		doc, rerr, reqs := resolve(dids[0], false)
		if rerr == nil {
			active := doc != nil && (len(doc.VerificationMethod) > 0 || len(doc.Controller) > 0)
			if active {
				s.Fail("C18.deactivated", "resolves-active", "deactivated DID %s still resolves with keys", dids[0])
				return
			}
			s.Info.Inc("deactivated-did-resolves-as-empty-document")
		} else if !errors.Is(rerr, resolver.ErrDeactivated) && !errors.Is(rerr, resolver.ErrNotFound) {
			s.Info.Inc("deactivated-did-other-error")
		}
		if len(reqs) != 0 {
			s.Fail("C18.local", "network-access-after-deactivation", "resolving the node's own deactivated DID made outbound requests: %s", reqs[0].URL)
			return
		}
		if _, rerr2, _ := resolve(dids[0], true); rerr2 != nil && rerr == nil {
			s.Fail("C18.deactivated", "allow", "deactivated DID resolves without but not with AllowDeactivated: %v", rerr2)
			return
		}
	}
	rc.Nontrivial = len(sample.Cases) > 0
	rc.Signature = strings.Join(sample.Cases, ";")
}
