//go:debug randseednop=0
//go:debug randautoseed=0

package props

import (
	"os"
	"sort"

	"github.com/nuts-foundation/nuts-node/core"
)

func envEnum() bool { return os.Getenv("VERIF_MODE") == "enum" }

func coreCfg() core.ServerConfig { return core.ServerConfig{} }

func sortStrings(s []string) { sort.Strings(s) }
