package world

import (
	"bytes"
	"encoding/base64"
	"encoding/json"
	"fmt"
	"io"
	"net/http"
	"net/http/httptest"
	"net/url"
	"strings"
	"time"

	"github.com/nuts-foundation/go-did/did"
	"github.com/nuts-foundation/go-did/vc"
	"github.com/nuts-foundation/nuts-node/vcr/holder"
	"github.com/nuts-foundation/nuts-node/vcr/signature/proof"
	"verifsim/seams"
)

// Web-node workload helpers: the same internal REST calls an operator's application makes
// (cf. e2e-tests/oauth-flow/rfc021/do-test.sh), against the node's real router.

// CreateSubject creates a subject and returns its DIDs.
func (n *Node) CreateSubject(name string) ([]string, error) {
	code, body := n.Call("POST", "/internal/vdr/v2/subject", fmt.Sprintf(`{"subject":%q}`, name))
	if code != 200 {
		return nil, fmt.Errorf("create subject: %d %s", code, body)
	}
	var sub struct {
		Documents []struct {
			ID string `json:"id"`
		} `json:"documents"`
	}
	if err := json.Unmarshal(body, &sub); err != nil {
		return nil, err
	}
	var out []string
	for _, d := range sub.Documents {
		out = append(out, d.ID)
	}
	return out, nil
}

// IssueOrgCredential issues a NutsOrganizationCredential and returns the credential JSON and its id.
func (n *Node) IssueOrgCredential(issuer, subject, name, city string, withStatusList bool, format string) ([]byte, string, error) {
	req := map[string]interface{}{
		"type":   "NutsOrganizationCredential",
		"issuer": issuer,
		"credentialSubject": map[string]interface{}{
			"id":           subject,
			"organization": map[string]string{"name": name, "city": city},
		},
		"withStatusList2021Revocation": withStatusList,
	}
	if format != "" {
		req["format"] = format
	}
	code, body := n.Call("POST", "/internal/vcr/v2/issuer/vc", req)
	if code != 200 {
		return nil, "", fmt.Errorf("issue: %d %s", code, body)
	}
	id := ""
	var obj map[string]interface{}
	if json.Unmarshal(body, &obj) == nil {
		if s, ok := obj["id"].(string); ok {
			id = s
		}
	}
	return body, id, nil
}

// LoadIntoWallet puts a credential into the wallet of a subject.
func (n *Node) LoadIntoWallet(subject string, vc []byte) error {
	code, body := n.Call("POST", "/internal/vcr/v2/holder/"+subject+"/vc", vc)
	if code != 204 && code != 200 {
		return fmt.Errorf("wallet load: %d %s", code, body)
	}
	return nil
}

// Revoke revokes a credential issued by this node.
func (n *Node) Revoke(credentialID string) (int, []byte) {
	return n.Call("DELETE", "/internal/vcr/v2/issuer/vc/"+url.PathEscape(credentialID), nil)
}

// TokenResult is the answer to a service access token request.
type TokenResult struct {
	Code        int
	Body        []byte
	AccessToken string `json:"access_token"`
	DPoPKid     string `json:"dpop_kid"`
	TokenType   string `json:"token_type"`
	ExpiresIn   int    `json:"expires_in"`
	Scope       string `json:"scope"`
}

// RequestServiceToken asks the node (as client) to obtain a service access token.
func (n *Node) RequestServiceToken(subject, authServer, scope, tokenType string, noCache bool) TokenResult {
	req := map[string]interface{}{"authorization_server": authServer, "scope": scope}
	if tokenType != "" {
		req["token_type"] = tokenType
	}
	hdr := []string{}
	if noCache {
		hdr = append(hdr, "Cache-Control", "no-cache")
	}
	code, body := n.Call("POST", "/internal/auth/v2/"+subject+"/request-service-access-token", req, hdr...)
	tr := TokenResult{Code: code, Body: body}
	if code == 200 {
		_ = json.Unmarshal(body, &tr)
	}
	return tr
}

// Introspect asks the authorization server node about a token.
func (n *Node) Introspect(token string) (int, map[string]interface{}) {
	code, body := n.CallForm("POST", "/internal/auth/v2/accesstoken/introspect", "token="+url.QueryEscape(token))
	var m map[string]interface{}
	_ = json.Unmarshal(body, &m)
	return code, m
}

// CallForm posts a form body to the node's own routes.
func (n *Node) CallForm(method, path, form string) (int, []byte) {
	return n.Call(method, path, form, "Content-Type", "application/x-www-form-urlencoded")
}

// IsTokenResponse tells whether a token endpoint response carries an access token.
func IsTokenResponse(code int, body []byte) bool {
	if code != 200 {
		return false
	}
	var m map[string]interface{}
	if json.Unmarshal(body, &m) != nil {
		return false
	}
	s, _ := m["access_token"].(string)
	return strings.TrimSpace(s) != ""
}

// ResignJWT takes a compact JWT made by this node (e.g. a captured presentation), lets edit
// change its claims, and has the node's own signing API sign the result with the same key: what
// the operator of a client node can do with the keys it holds.
func (n *Node) ResignJWT(token string, edit func(claims map[string]interface{})) (string, error) {
	parts := strings.Split(strings.TrimSpace(token), ".")
	if len(parts) != 3 {
		return "", fmt.Errorf("not a compact JWT")
	}
	hdrJSON, err := base64.RawURLEncoding.DecodeString(parts[0])
	if err != nil {
		return "", err
	}
	claimsJSON, err := base64.RawURLEncoding.DecodeString(parts[1])
	if err != nil {
		return "", err
	}
	var hdr struct {
		Kid string `json:"kid"`
	}
	if err := json.Unmarshal(hdrJSON, &hdr); err != nil || hdr.Kid == "" {
		return "", fmt.Errorf("no kid in header: %s", hdrJSON)
	}
	dec := json.NewDecoder(bytes.NewReader(claimsJSON))
	dec.UseNumber()
	claims := map[string]interface{}{}
	if err := dec.Decode(&claims); err != nil {
		return "", err
	}
	edit(claims)
	code, body := n.Call("POST", "/internal/crypto/v1/sign_jwt", map[string]interface{}{"kid": hdr.Kid, "claims": claims})
	if code != 200 {
		return "", fmt.Errorf("sign_jwt: %d %s", code, body)
	}
	return strings.Trim(strings.TrimSpace(string(body)), "\""), nil
}

// ReissueLDPresentation builds a JSON-LD presentation with the node's own wallet code and keys
// that carries the credentials, holder, domain and proof purpose of a captured one, with the
// given nonce and proof times: what the operator of a client node - or a client whose clock is
// off - produces.
func (n *Node) ReissueLDPresentation(captured []byte, created time.Time, expires time.Time, nonce string) ([]byte, error) {
	vp, err := vc.ParseVerifiablePresentation(string(captured))
	if err != nil {
		return nil, err
	}
	var proofs []proof.LDProof
	if err := vp.UnmarshalProofValue(&proofs); err != nil || len(proofs) == 0 {
		return nil, fmt.Errorf("captured presentation has no JSON-LD proof: %v", err)
	}
	old := proofs[0]
	signer, err := did.ParseDIDURL(old.VerificationMethod.String())
	if err != nil {
		return nil, err
	}
	opts := holder.PresentationOptions{Holder: vp.Holder, Format: "ldp_vp", ProofOptions: proof.ProofOptions{
		Created: created, Expires: &expires, Domain: old.Domain, Challenge: old.Challenge, ProofPurpose: old.ProofPurpose, Nonce: &nonce}}
	out, err := n.VCR().Wallet().BuildPresentation(Ctx(), vp.VerifiableCredential, opts, &signer.DID, false)
	if err != nil {
		return nil, err
	}
	return json.Marshal(out)
}

// BuildLDPresentation has this node's wallet code sign a JSON-LD presentation of the given credentials as they are
// (no validation of the credentials: what the operator of a holder node can do with the keys it holds).
func (n *Node) BuildLDPresentation(credentials []json.RawMessage, holderID string, expires time.Time) ([]byte, error) {
	var creds []vc.VerifiableCredential
	for _, c := range credentials {
		var cred vc.VerifiableCredential
		if err := json.Unmarshal(c, &cred); err != nil {
			return nil, err
		}
		creds = append(creds, cred)
	}
	holderDID, err := did.ParseDID(holderID)
	if err != nil {
		return nil, err
	}
	holderURI := holderDID.URI()
	opts := holder.PresentationOptions{Holder: &holderURI, Format: "ldp_vp", ProofOptions: proof.ProofOptions{Created: time.Now(), Expires: &expires}}
	out, err := n.VCR().Wallet().BuildPresentation(Ctx(), creds, opts, holderDID, false)
	if err != nil {
		return nil, err
	}
	return json.Marshal(out)
}

// SignJWTLike signs the claims of an existing JWT, changed by edit, with the given key of this node.
func (n *Node) SignJWTLike(token string, kid string, edit func(claims map[string]interface{})) (string, error) {
	parts := strings.Split(strings.TrimSpace(token), ".")
	if len(parts) != 3 {
		return "", fmt.Errorf("not a compact JWT")
	}
	claimsJSON, err := base64.RawURLEncoding.DecodeString(parts[1])
	if err != nil {
		return "", err
	}
	dec := json.NewDecoder(bytes.NewReader(claimsJSON))
	dec.UseNumber()
	claims := map[string]interface{}{}
	if err := dec.Decode(&claims); err != nil {
		return "", err
	}
	edit(claims)
	code, body := n.Call("POST", "/internal/crypto/v1/sign_jwt", map[string]interface{}{"kid": kid, "claims": claims})
	if code != 200 {
		return "", fmt.Errorf("sign_jwt: %d %s", code, body)
	}
	return strings.Trim(strings.TrimSpace(string(body)), "\""), nil
}

// Hop is one request of a simulated browser.
type Hop struct {
	URL      string
	Status   int
	Location string
	Body     []byte
}

// Browse plays the user's browser: GET start, follow redirects (one cookie jar per host) to
// whichever node serves the host, until there is no redirect, the host is not a node, or maxHops.
func (w *World) Browse(start string, jar map[string][]*http.Cookie, maxHops int) []Hop {
	var hops []Hop
	next := start
	for i := 0; i < maxHops && next != ""; i++ {
		u, err := url.Parse(next)
		if err != nil {
			break
		}
		n := w.Nodes[strings.TrimSuffix(u.Hostname(), ".sim")]
		if n == nil || n.Echo == nil {
			hops = append(hops, Hop{URL: next, Status: 0})
			break
		}
		req := httptest.NewRequest("GET", next, nil)
		req.Host = u.Host
		for _, c := range jar[u.Host] {
			req.AddCookie(c)
		}
		resp := n.Serve(req)
		body, _ := io.ReadAll(resp.Body)
		resp.Body.Close()
		if cs := resp.Cookies(); len(cs) > 0 {
			jar[u.Host] = append(jar[u.Host], cs...)
		}
		h := Hop{URL: next, Status: resp.StatusCode, Location: resp.Header.Get("Location"), Body: body}
		hops = append(hops, h)
		next = ""
		if resp.StatusCode >= 300 && resp.StatusCode < 400 && h.Location != "" {
			if loc, err := u.Parse(h.Location); err == nil {
				next = loc.String()
			}
		}
	}
	return hops
}

// Redeliver sends a recorded request (method, URL, headers, body) to the node that serves its host.
func (w *World) Redeliver(rec seams.HTTPRecord) (int, []byte) {
	u, err := url.Parse(rec.URL)
	if err != nil {
		return 0, nil
	}
	n := w.Nodes[strings.TrimSuffix(u.Hostname(), ".sim")]
	if n == nil {
		return 0, nil
	}
	req := httptest.NewRequest(rec.Method, rec.URL, bytes.NewReader(rec.ReqBody))
	req.Host = u.Host
	for _, line := range strings.Split(rec.ReqHeader, "\r\n") {
		if i := strings.Index(line, ": "); i > 0 {
			req.Header.Set(line[:i], line[i+2:])
		}
	}
	resp := n.Serve(req)
	body, _ := io.ReadAll(resp.Body)
	resp.Body.Close()
	return resp.StatusCode, body
}
