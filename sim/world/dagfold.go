package world

import (
	"bytes"
	"context"
	"fmt"
	"sort"

	"github.com/nuts-foundation/nuts-node/crypto/hash"
	"github.com/nuts-foundation/nuts-node/network/dag"
	"github.com/nuts-foundation/nuts-node/network/dag/tree"
)

// FoldResult is what the reference fold computed from the stored set.
type FoldResult struct {
	Refs  []hash.SHA256Hash
	Clock map[hash.SHA256Hash]uint32
	High  uint32
	Count int
}

// FoldViolation describes which derived structure disagrees with the stored set.
type FoldViolation struct {
	Invariant string
	Msg       string
}

func (f *FoldViolation) Error() string { return f.Invariant + ": " + f.Msg }

func xorOf(refs []hash.SHA256Hash, clock map[hash.SHA256Hash]uint32, upto uint32) hash.SHA256Hash {
	var acc hash.SHA256Hash
	for _, r := range refs {
		if clock[r] <= upto {
			for i := range acc {
				acc[i] ^= r[i]
			}
		}
	}
	return acc
}

// RequestClocks returns the clocks at which digests are compared: 0, the highest clock and its
// neighbours, the maximum, and every page boundary with its neighbours.
func RequestClocks(high uint32, extra []uint32) []uint32 {
	set := map[uint32]bool{0: true, high: true, high + 1: true, dag.MaxLamportClock: true, dag.MaxLamportClock - 1: true}
	if high > 0 {
		set[high-1] = true
	}
	for b := uint32(dag.PageSize); b <= high+dag.PageSize; b += dag.PageSize {
		set[b-1], set[b], set[b+1] = true, true, true
	}
	for _, e := range extra {
		set[e] = true
	}
	out := make([]uint32, 0, len(set))
	for c := range set {
		out = append(out, c)
	}
	sort.Slice(out, func(i, j int) bool { return out[i] < out[j] })
	return out
}

// CheckFold recomputes, from the clock-ordered listing of the stored transactions, everything
// the DAG derives from them and compares: XOR and IBLT per requested clock with the returned
// clock, listing order, highest clock, count, head.
func CheckFold(st dag.State, extraClocks []uint32) (*FoldResult, *FoldViolation) {
	return checkFold(st, extraClocks, false)
}

// CheckFoldLight compares the digests only for the whole DAG and one page-limited request
// (used at every quiescent point; the full set of request clocks is used at the end).
func CheckFoldLight(st dag.State) (*FoldResult, *FoldViolation) {
	return checkFold(st, nil, true)
}

func checkFold(st dag.State, extraClocks []uint32, light bool) (*FoldResult, *FoldViolation) {
	ctx := context.Background()
	txs, err := st.FindBetweenLC(ctx, 0, dag.MaxLamportClock)
	if err != nil {
		return nil, &FoldViolation{"C08.index", "listing failed: " + err.Error()}
	}
	res := &FoldResult{Clock: map[hash.SHA256Hash]uint32{}}
	var prevClock uint32
	var prevRef hash.SHA256Hash
	for i, tx := range txs {
		ref := tx.Ref()
		if _, dup := res.Clock[ref]; dup {
			return res, &FoldViolation{"C08.index", fmt.Sprintf("transaction %s listed twice", ref)}
		}
		if i > 0 {
			if tx.Clock() < prevClock {
				return res, &FoldViolation{"C08.index", fmt.Sprintf("listing not clock-ordered at %d: %d after %d", i, tx.Clock(), prevClock)}
			}
			if tx.Clock() == prevClock && prevRef.Compare(ref) > 0 {
				return res, &FoldViolation{"C08.index", fmt.Sprintf("listing not ordered by reference within clock %d", prevClock)}
			}
		}
		prevClock, prevRef = tx.Clock(), ref
		res.Clock[ref] = tx.Clock()
		res.Refs = append(res.Refs, ref)
		if tx.Clock() > res.High {
			res.High = tx.Clock()
		}
	}
	res.Count = len(txs)
	// count and highest clock as reported
	for _, d := range st.Diagnostics() {
		switch d.Name() {
		case dag.TransactionCountDiagnostic:
			if fmt.Sprint(d.Result()) != fmt.Sprint(res.Count) {
				return res, &FoldViolation{"C08.index", fmt.Sprintf("transaction count reported %v, stored %d", d.Result(), res.Count)}
			}
		case "dag_lc_high":
			if fmt.Sprint(d.Result()) != fmt.Sprint(res.High) {
				return res, &FoldViolation{"C08.index", fmt.Sprintf("highest clock reported %v, stored %d", d.Result(), res.High)}
			}
		case "dag_xor":
			want := xorOf(res.Refs, res.Clock, dag.MaxLamportClock)
			if fmt.Sprint(d.Result()) != want.String() {
				return res, &FoldViolation{"C08.xor", fmt.Sprintf("diagnostic dag_xor %v, recomputed %s", d.Result(), want)}
			}
		}
	}
	// head
	head, err := st.Head(ctx)
	if res.Count == 0 {
		if err == nil && !head.Empty() {
			return res, &FoldViolation{"C08.index", "head set on empty DAG"}
		}
	} else {
		if err != nil {
			return res, &FoldViolation{"C08.index", "head: " + err.Error()}
		}
		c, ok := res.Clock[head]
		if !ok {
			return res, &FoldViolation{"C08.index", fmt.Sprintf("head %s is not a stored transaction", head)}
		}
		if c != res.High {
			return res, &FoldViolation{"C08.index", fmt.Sprintf("head %s has clock %d, highest is %d", head, c, res.High)}
		}
	}
	// digests
	reqs := RequestClocks(res.High, extraClocks)
	if light {
		reqs = []uint32{dag.MaxLamportClock}
		if res.High > 0 {
			reqs = append(reqs, res.High-1)
		}
	}
	for _, req := range reqs {
		x, xc := st.XOR(req)
		if v := checkClock("C08.xor", req, xc, res.High); v != nil {
			return res, v
		}
		if want := xorOf(res.Refs, res.Clock, xc); !want.Equals(x) {
			return res, &FoldViolation{"C08.xor", fmt.Sprintf("XOR(%d) returned %s for clock %d, recomputed %s over %d stored", req, x, xc, want, res.Count)}
		}
		ib, ic := st.IBLT(req)
		if v := checkClock("C08.iblt", req, ic, res.High); v != nil {
			return res, v
		}
		ref := tree.NewIblt(dag.IbltNumBuckets)
		for _, r := range res.Refs {
			if res.Clock[r] <= ic {
				ref.Insert(r)
			}
		}
		wb, _ := ref.MarshalBinary()
		gb, _ := ib.MarshalBinary()
		if !bytes.Equal(wb, gb) {
			return res, &FoldViolation{"C08.iblt", fmt.Sprintf("IBLT(%d) for clock %d differs from the one recomputed over the stored set", req, ic)}
		}
	}
	return res, nil
}

// checkClock: the returned clock is the lowest of the upper limit of the page that holds the
// requested clock and the highest clock in the DAG (documented contract of State.XOR/IBLT).
func checkClock(inv string, req, got, high uint32) *FoldViolation {
	want := high
	if req < high {
		pageEnd := (req/dag.PageSize+1)*dag.PageSize - 1
		if pageEnd < high {
			want = pageEnd
		}
	}
	if got != want {
		return &FoldViolation{inv, fmt.Sprintf("digest for requested clock %d reports clock %d, expected %d (highest %d)", req, got, want, high)}
	}
	return nil
}
