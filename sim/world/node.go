// Package world assembles real nuts-node engines into simulated nodes over the seams.
package world

import (
	"context"
	"fmt"
	"net/http"
	"os"
	"reflect"
	"sort"
	"strings"
	"sync"
	"time"

	"github.com/labstack/echo/v4"
	"github.com/nats-io/nats.go"
	"github.com/nuts-foundation/go-did/did"
	"github.com/nuts-foundation/go-stoabs"
	"github.com/nuts-foundation/nuts-node/audit"
	"github.com/nuts-foundation/nuts-node/core"
	"github.com/nuts-foundation/nuts-node/crypto"
	"github.com/nuts-foundation/nuts-node/events"
	httpclient "github.com/nuts-foundation/nuts-node/http/client"
	"github.com/nuts-foundation/nuts-node/network"
	"github.com/nuts-foundation/nuts-node/network/dag"
	"github.com/nuts-foundation/nuts-node/network/transport"
	"github.com/nuts-foundation/nuts-node/network/transport/grpc"
	v2 "github.com/nuts-foundation/nuts-node/network/transport/v2"
	"github.com/nuts-foundation/nuts-node/pki"
	"github.com/nuts-foundation/nuts-node/storage"
	"github.com/nuts-foundation/nuts-node/vcr/revocation"
	"github.com/nuts-foundation/nuts-node/vdr"
	"github.com/nuts-foundation/nuts-node/vdr/didnuts/didstore"
	"github.com/nuts-foundation/sqlite"
	"github.com/sirupsen/logrus"
	"github.com/spf13/pflag"
	"gorm.io/gorm"
	"verifsim/seams"
	"verifsim/simkit"
)

func init() {
	if os.Getenv("VERIF_LOG") == "" {
		// the audit logger is created with os.Stderr as its output at first use; run panics are
		// written by the runtime to file descriptor 2 directly and stay visible
		if devnull, err := os.OpenFile("/dev/null", os.O_WRONLY, 0); err == nil {
			os.Stderr = devnull
		}
	}
	seams.MessageOf = func(envelope interface{}) interface{} {
		if e, ok := envelope.(*v2.Envelope); ok {
			return e.Message
		}
		return envelope
	}
}

// ---- NATS stub (events) ----

type stubJS struct{ nats.JetStreamContext }

func (stubJS) StreamInfo(string, ...nats.JSOpt) (*nats.StreamInfo, error) {
	return &nats.StreamInfo{}, nil
}
func (stubJS) AddStream(*nats.StreamConfig, ...nats.JSOpt) (*nats.StreamInfo, error) {
	return &nats.StreamInfo{}, nil
}
func (stubJS) Subscribe(string, nats.MsgHandler, ...nats.SubOpt) (*nats.Subscription, error) {
	return &nats.Subscription{}, nil
}
func (stubJS) PublishAsync(string, []byte, ...nats.PubOpt) (nats.PubAckFuture, error) {
	return nil, nil
}
func (stubJS) PublishAsyncComplete() <-chan struct{} { c := make(chan struct{}); close(c); return c }

type stubConn struct{}

func (stubConn) Close()                                                 {}
func (stubConn) JetStream(...nats.JSOpt) (nats.JetStreamContext, error) { return stubJS{}, nil }

type stubPool struct{}

func (stubPool) Acquire(context.Context) (events.Conn, nats.JetStreamContext, error) {
	return stubConn{}, stubJS{}, nil
}
func (stubPool) Shutdown() {}

// StubEvents replaces the NATS event manager.
type StubEvents struct{}

func (StubEvents) GetStream(string) events.Stream { return nil }
func (StubEvents) Pool() events.ConnectionPool    { return stubPool{} }

// ---- storage wrapper ----

// SimStorage gives modules the real storage engine with every KV store wrapped by the KV seam.
type SimStorage struct {
	Real storage.Engine
	node *Node
	mu   sync.Mutex
	kvs  map[string]*seams.KV
	// SQL / Session are overridden by worlds that wrap them.
	SQL     *gorm.DB
	SQLSeam *seams.SQL
	Session storage.SessionDatabase
}

var _ storage.Engine = (*SimStorage)(nil)

func (s *SimStorage) Configure(c core.ServerConfig) error { return s.Real.Configure(c) }
func (s *SimStorage) Start() error                        { return s.Real.Start() }
func (s *SimStorage) Shutdown() error                     { return s.Real.Shutdown() }
func (s *SimStorage) GetSessionDatabase() storage.SessionDatabase {
	if s.Session != nil {
		return s.Session
	}
	return s.Real.GetSessionDatabase()
}
func (s *SimStorage) GetSQLDatabase() *gorm.DB {
	if s.SQL != nil {
		return s.SQL
	}
	real := s.Real.GetSQLDatabase()
	if real == nil || !s.node.Opts.SimSQL {
		return real
	}
	// the same (already migrated) database handle underneath a gorm instance that goes through the SQL seam
	raw, err := real.DB()
	if err != nil {
		panic(err)
	}
	n := s.node
	s.SQLSeam = &seams.SQL{Real: raw, S: n.W.S, Inc: n.Inc, Name: n.Name + "/sql", F: n.W.F}
	db, err := gorm.Open(sqlite.Dialector{Conn: s.SQLSeam}, &gorm.Config{TranslateError: true, Logger: real.Config.Logger})
	if err != nil {
		panic(err)
	}
	s.SQL = db
	return db
}
func (s *SimStorage) GetProvider(module string) storage.Provider {
	return &simProvider{s: s, module: strings.ToLower(module), real: s.Real.GetProvider(module)}
}

// KV returns the wrapped store "module/name" if it was opened.
func (s *SimStorage) KV(key string) *seams.KV { s.mu.Lock(); defer s.mu.Unlock(); return s.kvs[key] }

// KVNames lists opened stores.
func (s *SimStorage) KVNames() []string {
	s.mu.Lock()
	defer s.mu.Unlock()
	var r []string
	for k := range s.kvs {
		r = append(r, k)
	}
	sort.Strings(r)
	return r
}

type simProvider struct {
	s      *SimStorage
	module string
	real   storage.Provider
}

func (p *simProvider) GetKVStore(name string, class storage.Class) (stoabs.KVStore, error) {
	key := p.module + "/" + name
	p.s.mu.Lock()
	defer p.s.mu.Unlock()
	if kv, ok := p.s.kvs[key]; ok {
		return kv, nil
	}
	real, err := p.real.GetKVStore(name, class)
	if err != nil {
		return nil, err
	}
	n := p.s.node
	kv := &seams.KV{Real: real, S: n.W.S, Inc: n.Inc, Name: n.Name + "/" + key, F: n.W.F}
	if n.W.KVObserve != nil {
		kv.Observe = func(name string, shelves map[string]int) { n.W.KVObserve(n, name, shelves) }
	}
	if n.W.KVObserveOps != nil {
		kv.ObserveOps = func(name string, ops []seams.KVOp) { n.W.KVObserveOps(n, name, ops) }
	}
	p.s.kvs[key] = kv
	return kv, nil
}

// ---- world and nodes ----

// NodeOpts configures one simulated node.
type NodeOpts struct {
	Name       string
	DIDMethods string // "nuts", "web" or "web,nuts"
	Env        map[string]string
	NetConfig  func(c *network.Config)
	// Web enables the HTTP-facing modules (vcr, auth, discovery, policy, didman) and routes.
	Web bool
	// SimSession puts the in-memory session database on the simulator's cache store (every
	// session-store operation becomes a scheduling point).
	SimSession bool
	// DiscoveryServer makes this node the server of the embedded discovery service definition;
	// DiscoveryHost is the host name of the server node (for clients and the server itself).
	DiscoveryServer bool
	DiscoveryHost   string
	// SimSQL puts gorm on the SQL seam (transactions and statements become scheduling, fault and crash points).
	SimSQL bool
	// ConfigYAML is written to the node's config file (for keys the environment cannot express).
	ConfigYAML string
	// Extra lets a world register more engines before Load; it receives the partly built node.
	Extra func(n *Node)
	// BeforeStart runs after Configure/Migrate and before Start (e.g. to subscribe receivers).
	BeforeStart func(n *Node)
}

// Node is one incarnation of a simulated node.
type Node struct {
	W       *World
	Name    string
	Dir     string
	Opts    NodeOpts
	Inc     *seams.Incarnation
	System  *core.System
	Storage *SimStorage
	Crypto  *crypto.Crypto
	DIDs    didstore.Store
	VDR     *vdr.Module
	Net     *network.Network
	EP      *seams.Endpoint
	Echo    *echo.Echo
	Events  events.Event
	PKI     *pki.PKI
	Parts   map[string]interface{} // further engines by name (vcr, auth, ...)
	Session *seams.SessionStore
	stopped bool
}

// World is the set of nodes of one run.
type World struct {
	S     *simkit.Sim
	RC    *simkit.RunCtx
	F     *seams.FaultPoints
	P2P   *seams.P2P
	HTTP  *seams.HTTP
	Nodes map[string]*Node
	Gens  map[string]int
	// KVObserve sees every committed KV write transaction.
	KVObserve func(n *Node, store string, shelves map[string]int)
	// KVObserveOps sees the operations of every committed KV write transaction.
	KVObserveOps func(n *Node, store string, ops []seams.KVOp)
	// Crashed collects nodes whose incarnation died at a crash point and await restart.
	cmu     sync.Mutex
	crashed []string
	LogHook *LogCapture
	// RecordAPI keeps what the node's own API returned to the workload (for the key canary).
	RecordAPI bool
	APILog    [][]byte
	apiMu     sync.Mutex
	// OnPanic, if set, receives panics of HTTP handlers instead of letting them unwind.
	OnPanic func(where string, v interface{}, stack []byte)
}

// New creates an empty world for a run.
func New(s *simkit.Sim, rc *simkit.RunCtx) *World {
	f := &seams.FaultPoints{S: s, Rates: map[string]int{}}
	w := &World{S: s, RC: rc, F: f, Nodes: map[string]*Node{}, Gens: map[string]int{}}
	w.P2P = seams.NewP2P(s, f)
	w.HTTP = seams.NewHTTP(s, f)
	seams.SetCurrentHTTP(w.HTTP)
	installDispatcher()
	w.P2P.NewEnvelope = func() interface{} { return &v2.Envelope{} }
	// checkPage calls db.Write while holding the repair mutex that gossip handling also takes
	s.PassThrough = append(s.PassThrough, "xorTreeRepair")
	w.LogHook = InstallLogCapture()
	// no background pruning goroutine in the session cache: its finalizer would fire outside the bubble
	storage.SimSetSessionPruneInterval(0)
	// a task inside storage.Atomically / GetAndDelete is not parked at the session-store seam
	s.HeldProbes = append(s.HeldProbes, storage.SimSessionMutexHeld)
	// nor one that refreshes a status list (one refresh at a time per list)
	s.HeldProbes = append(s.HeldProbes, revocation.SimRefreshMutexHeld)
	return w
}

var managedEnv = map[string]bool{}

func setEnv(env map[string]string) {
	for k := range managedEnv {
		os.Unsetenv(k)
	}
	for k, v := range env {
		managedEnv[k] = true
		os.Setenv(k, v)
	}
}

// Ctx returns an audit context for API calls of the workload.
func Ctx() context.Context {
	return audit.Context(context.Background(), "sim", "Sim", "op")
}

// StartNode builds and starts a node (a new incarnation if the name was used before: it
// reopens the same data directory). If a crash point fires while the node boots, the boot is
// repeated (a process that dies during start-up is simply started again).
func (w *World) StartNode(o NodeOpts) (*Node, error) {
	var lastErr error
	for attempt := 0; attempt < 8; attempt++ {
		n, err := w.startNodeOnce(o)
		if err == nil && !n.Inc.Dead() {
			return n, nil
		}
		if err == nil {
			// a crash point fired during start-up without failing it (errors of the replay of
			// stored events are not start-up errors): the process is gone all the same
			err = fmt.Errorf("incarnation died during start")
			w.P2P.DisconnectAll(o.Name)
		}
		lastErr = err
		if n == nil || !n.Inc.Dead() {
			return nil, err
		}
		// died while booting: reap the partial incarnation and try again
		w.S.Probes.Inc("crash-during-boot")
		w.TakeCrashedFor(o.Name)
		func() {
			defer func() { recover() }()
			_ = n.System.Shutdown()
		}()
	}
	return nil, lastErr
}

func (w *World) startNodeOnce(o NodeOpts) (*Node, error) {
	gen := w.Gens[o.Name] + 1
	w.Gens[o.Name] = gen
	n := &Node{W: w, Name: o.Name, Opts: o, Dir: w.RC.Dir + "/" + o.Name, Parts: map[string]interface{}{}}
	n.Inc = &seams.Incarnation{Node: o.Name, Gen: gen, S: w.S}
	n.Inc.OnCrash = func(site string) {
		w.cmu.Lock()
		w.crashed = append(w.crashed, o.Name)
		w.cmu.Unlock()
	}
	os.MkdirAll(n.Dir, 0o755)
	prevTag := w.S.RootTag
	w.S.RootTag = "boot:" + o.Name
	defer func() { w.S.RootTag = prevTag }()
	env := map[string]string{
		"NUTS_DATADIR":    n.Dir,
		"NUTS_STRICTMODE": "false",
		"NUTS_URL":        "https://" + o.Name + ".sim",
		"NUTS_DIDMETHODS": o.DIDMethods,
		"NUTS_VERBOSITY":  "warn",
	}
	if o.Web {
		w.webConfig(n, env)
	}
	for k, v := range o.Env {
		env[k] = v
	}
	setEnv(env)

	system := core.NewSystem()
	n.System = system
	n.PKI = pki.New()
	realStorage := storage.New()
	n.Storage = &SimStorage{Real: realStorage, node: n, kvs: map[string]*seams.KV{}}
	if o.SimSession {
		n.Session = seams.NewSessionStore(w.S, n.Inc)
		n.Storage.Session = storage.NewSimSessionDatabase(n.Session)
	}
	n.Crypto = crypto.NewCryptoInstance(n.Storage)
	n.DIDs = didstore.New(n.Storage.GetProvider(vdr.ModuleName))
	n.Events = StubEvents{}
	netCfg := network.DefaultConfig()
	netCfg.ProtocolV2.DiagnosticsInterval = 0
	if o.NetConfig != nil {
		o.NetConfig(&netCfg)
	}
	n.Net = network.NewNetworkInstance(netCfg, n.DIDs, n.Crypto, n.Events, n.Storage.GetProvider(network.ModuleName), n.PKI)
	n.EP = &seams.Endpoint{Name: o.Name, Inc: n.Inc, CM: &seams.ConnManager{}, List: &seams.ConnList{}}
	n.Net.SimSetConnectionManager(n.EP.CM)
	n.VDR = vdr.NewVDR(n.Crypto, n.Net, n.DIDs, n.Events, n.Storage, n.PKI)
	system.RegisterEngine(realStorage)
	system.RegisterEngine(n.Crypto)
	flagSets := []*pflag.FlagSet{core.FlagSet()}
	if o.Web {
		flagSets = append(flagSets, w.webFlagSets()...)
		w.webBeforeDIDStore(n)
	}
	system.RegisterEngine(n.DIDs)
	system.RegisterEngine(n.VDR)
	if o.Web {
		w.webBeforeNetwork(n)
	}
	system.RegisterEngine(n.Net)
	if o.Web {
		w.webAfterNetwork(n)
	}
	if o.Extra != nil {
		o.Extra(n)
	}
	fs := pflag.NewFlagSet("sim", pflag.ContinueOnError)
	for _, f := range flagSets {
		fs.AddFlagSet(f)
	}
	if err := system.Load(fs); err != nil {
		return n, fmt.Errorf("load: %w", err)
	}
	// network config is not loaded from env: keep what NetConfig set (Load may overwrite from defaults)
	if err := system.Configure(); err != nil {
		return n, fmt.Errorf("configure: %w", err)
	}
	for _, p := range n.Net.SimProtocols() {
		gp := p.(grpc.Protocol)
		gp.Register(seams.Registrar{}, nil, n.EP.List, n.EP.CM)
		n.EP.Prot = gp
	}
	if err := system.Migrate(); err != nil {
		return n, fmt.Errorf("migrate: %w", err)
	}
	if o.Web {
		n.Echo = echo.New()
		n.Echo.HTTPErrorHandler = core.CreateHTTPErrorHandler()
		for _, r := range system.Routers {
			r.Routes(n.Echo)
		}
		inc := n.Inc
		w.HTTP.Handle(o.Name+".sim", func(req *http.Request) *http.Response {
			if inc.Dead() {
				return &http.Response{StatusCode: 502, Header: http.Header{}, Body: http.NoBody}
			}
			return n.Serve(req)
		})
	}
	if o.BeforeStart != nil {
		o.BeforeStart(n)
	}
	if err := system.Start(); err != nil {
		return n, fmt.Errorf("start: %w", err)
	}
	n.EP.PeerID = transport.PeerID(fmt.Sprintf("peer-%s-%d", o.Name, gen))
	if nd := netCfg.NodeDID; nd != "" {
		if d, err := did.ParseDID(nd); err == nil {
			n.EP.NodeDID = *d
		}
	}
	w.P2P.AddEndpoint(n.EP)
	w.Nodes[o.Name] = n
	w.registerHeldProbes(n)
	w.S.Tr.Add("START %s gen%d", o.Name, gen)
	return n, nil
}

// State returns the node's DAG state.
func (n *Node) State() dag.State { return n.Net.SimState() }

// DagKV returns the wrapped DAG store.
func (n *Node) DagKV() *seams.KV { return n.Storage.KV("network/data") }

// Stop ends an incarnation. If crash is true nothing of nuts-node's shutdown has any
// durable effect: the incarnation is dead before its goroutines are reaped.
func (w *World) Stop(name string, crash bool) {
	n := w.Nodes[name]
	if n == nil || n.stopped {
		return
	}
	n.stopped = true
	if crash {
		n.Inc.Kill("root")
	}
	w.P2P.DisconnectAll(name)
	done := make(chan struct{})
	go func() {
		defer close(done)
		defer func() { recover() }()
		_ = n.System.Shutdown()
	}()
	// shutdown code may wait on timers (virtual) but must not park at seams of a dead node
	select {
	case <-done:
	case <-time.After(2 * time.Minute):
		w.S.Info.Inc("shutdown-timeout")
	}
	if !crash {
		n.Inc.Kill("shutdown")
	}
	w.S.Tr.Add("STOP %s crash=%v", name, crash)
}

// TakeCrashed returns the names of nodes that died at a crash point since the last call.
func (w *World) TakeCrashed() []string {
	w.cmu.Lock()
	defer w.cmu.Unlock()
	c := w.crashed
	w.crashed = nil
	seen := map[string]bool{}
	var out []string
	for _, x := range c {
		if !seen[x] {
			seen[x] = true
			out = append(out, x)
		}
	}
	return out
}

// TakeCrashedFor drops pending crash notifications of one node.
func (w *World) TakeCrashedFor(name string) {
	w.cmu.Lock()
	defer w.cmu.Unlock()
	var keep []string
	for _, x := range w.crashed {
		if x != name {
			keep = append(keep, x)
		}
	}
	w.crashed = keep
}

// Restart stops (as a crash unless already dead) and starts a node again on the same files.
func (w *World) Restart(name string) (*Node, error) {
	old := w.Nodes[name]
	if old == nil {
		return nil, fmt.Errorf("no node %s", name)
	}
	w.Stop(name, true)
	return w.StartNode(old.Opts)
}

// Shutdown stops all nodes gracefully (end of run).
func (w *World) Shutdown() {
	names := make([]string, 0, len(w.Nodes))
	for k := range w.Nodes {
		names = append(names, k)
	}
	sort.Strings(names)
	w.S.Enable(false)
	for _, k := range names {
		w.Stop(k, false)
	}
	w.P2P.Stop()
	w.LogHook.Remove()
}

// ---- log capture ----

// LogCapture records log lines (for probes and the key canary) and silences output.
type LogCapture struct {
	mu     sync.Mutex
	Lines  []string
	Keep   bool
	Counts map[string]int
	OnLine func(level logrus.Level, line string)
}

func (l *LogCapture) Levels() []logrus.Level { return logrus.AllLevels }
func (l *LogCapture) Fire(e *logrus.Entry) error {
	l.mu.Lock()
	defer l.mu.Unlock()
	l.Counts[e.Level.String()]++
	if l.Keep || l.OnLine != nil {
		line := e.Message
		for k, v := range e.Data {
			line += fmt.Sprintf(" %s=%v", k, v)
		}
		if l.Keep && len(l.Lines) < 5000 {
			l.Lines = append(l.Lines, e.Level.String()+" "+line)
		}
		if l.OnLine != nil {
			l.OnLine(e.Level, line)
		}
	}
	return nil
}

type nullWriter struct{}

func (nullWriter) Write(p []byte) (int, error) { return len(p), nil }

// InstallLogCapture hooks the standard logger.
func InstallLogCapture() *LogCapture {
	l := &LogCapture{Counts: map[string]int{}}
	std := logrus.StandardLogger()
	std.ReplaceHooks(logrus.LevelHooks{})
	std.AddHook(l)
	if os.Getenv("VERIF_LOG") == "" {
		std.SetOutput(nullWriter{})
	}
	return l
}

// Remove detaches the capture.
func (l *LogCapture) Remove() { logrus.StandardLogger().ReplaceHooks(logrus.LevelHooks{}) }

// registerHeldProbes makes the scheduler aware of in-memory mutexes of the node that are held
// across store transactions (found by name through reflection; absent fields are ignored).
func (w *World) registerHeldProbes(n *Node) {
	st := n.Net.SimState()
	if st == nil {
		return
	}
	for _, field := range []string{"addMutex"} {
		if m := mutexField(st, field); m != nil {
			inc := n.Inc
			w.S.HeldProbes = append(w.S.HeldProbes, func() bool {
				if inc.Dead() {
					return false
				}
				if m.TryLock() {
					m.Unlock()
					return false
				}
				return true
			})
		}
	}
}

func mutexField(obj interface{}, name string) *sync.Mutex {
	v := reflect.ValueOf(obj)
	for v.Kind() == reflect.Interface || v.Kind() == reflect.Ptr {
		if v.IsNil() {
			return nil
		}
		v = v.Elem()
	}
	if v.Kind() != reflect.Struct {
		return nil
	}
	f := v.FieldByName(name)
	if !f.IsValid() || !f.CanAddr() || f.Type() != reflect.TypeOf(sync.Mutex{}) {
		return nil
	}
	return (*sync.Mutex)(f.Addr().UnsafePointer())
}

var dispatcherOnce sync.Once

// installDispatcher registers the process-wide round tripper that sends every outbound request
// of nuts-node's HTTP clients to the current run's simulated HTTP transport.
func installDispatcher() {
	dispatcherOnce.Do(func() {
		httpclient.SafeHttpTransport.RegisterProtocol("https", seams.Dispatcher{})
		httpclient.SafeHttpTransport.RegisterProtocol("http", seams.Dispatcher{})
		httpclient.DefaultCachingTransport = httpclient.SafeHttpTransport
	})
}
