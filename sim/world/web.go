package world

import (
	"bytes"
	_ "embed"
	"encoding/json"
	"io"
	"net/http"
	"net/http/httptest"
	"os"
	"runtime/debug"
	"strings"

	"github.com/nuts-foundation/nuts-node/auth"
	authIAMAPI "github.com/nuts-foundation/nuts-node/auth/api/iam"
	cryptoAPI "github.com/nuts-foundation/nuts-node/crypto/api/v1"
	"github.com/nuts-foundation/nuts-node/didman"
	"github.com/nuts-foundation/nuts-node/discovery"
	discoveryServerAPI "github.com/nuts-foundation/nuts-node/discovery/api/server"
	discoveryAPI "github.com/nuts-foundation/nuts-node/discovery/api/v1"
	discoveryCmd "github.com/nuts-foundation/nuts-node/discovery/cmd"
	"github.com/nuts-foundation/nuts-node/jsonld"
	"github.com/nuts-foundation/nuts-node/policy"
	"github.com/nuts-foundation/nuts-node/vcr"
	vcrAPI "github.com/nuts-foundation/nuts-node/vcr/api/vcr/v2"
	vdrAPIv2 "github.com/nuts-foundation/nuts-node/vdr/api/v2"
	"github.com/nuts-foundation/nuts-node/vdr/resolver"
	"github.com/spf13/pflag"
)

// The web modules are registered in the order of cmd.CreateSystem: jsonld before the DID
// store, vcr before the network engine, the rest after it.
func (w *World) webFlagSets() []*pflag.FlagSet {
	return []*pflag.FlagSet{policy.FlagSet(), discoveryCmd.FlagSet()}
}

func (w *World) webBeforeDIDStore(n *Node) {
	jsonldInstance := jsonld.NewJSONLDInstance()
	n.Parts["jsonld"] = jsonldInstance
	n.System.RegisterEngine(jsonldInstance)
}

func (w *World) webBeforeNetwork(n *Node) {
	jsonldInstance := n.Parts["jsonld"].(jsonld.JSONLD)
	credentialInstance := vcr.NewVCRInstance(n.Crypto, n.VDR, n.Net, jsonldInstance, n.Events, n.Storage, n.PKI)
	n.Parts["vcr"] = credentialInstance
	n.System.RegisterEngine(credentialInstance)
}

func (w *World) webAfterNetwork(n *Node) {
	jsonldInstance := n.Parts["jsonld"].(jsonld.JSONLD)
	credentialInstance := n.Parts["vcr"].(vcr.VCR)
	didmanInstance := didman.NewDidmanInstance(n.VDR, credentialInstance, jsonldInstance)
	discoveryInstance := discovery.New(n.Storage, credentialInstance, n.VDR, n.VDR)
	authInstance := auth.NewAuthInstance(auth.DefaultConfig(), n.VDR, n.VDR, credentialInstance, n.Crypto, didmanInstance, jsonldInstance, n.PKI)
	policyInstance := policy.New()
	didKeyResolver := resolver.DIDKeyResolver{Resolver: n.VDR.Resolver()}
	n.Parts["didman"] = didmanInstance
	n.Parts["discovery"] = discoveryInstance
	n.Parts["auth"] = authInstance
	n.Parts["policy"] = policyInstance
	s := n.System
	s.RegisterRoutes(&cryptoAPI.Wrapper{C: n.Crypto, K: didKeyResolver})
	s.RegisterRoutes(&vdrAPIv2.Wrapper{VDR: n.VDR, SubjectManager: n.VDR})
	s.RegisterRoutes(&vcrAPI.Wrapper{VCR: credentialInstance, ContextManager: jsonldInstance, SubjectManager: n.VDR})
	s.RegisterRoutes(authIAMAPI.New(authInstance, credentialInstance, didKeyResolver, n.VDR, n.Storage, policyInstance, n.Crypto, jsonldInstance))
	s.RegisterRoutes(&discoveryAPI.Wrapper{Client: discoveryInstance})
	s.RegisterRoutes(&discoveryServerAPI.Wrapper{Server: discoveryInstance})
	s.RegisterEngine(authInstance)
	s.RegisterEngine(discoveryInstance)
	s.RegisterEngine(didmanInstance)
	s.RegisterEngine(policyInstance)
}

// VCR returns the node's credential engine.
func (n *Node) VCR() vcr.VCR {
	if v, ok := n.Parts["vcr"]; ok {
		return v.(vcr.VCR)
	}
	return nil
}

// Call performs a request against the node's own routes (as an API client would).
func (n *Node) Call(method, path string, body interface{}, hdr ...string) (int, []byte) {
	var rd io.Reader
	if body != nil {
		switch b := body.(type) {
		case string:
			rd = strings.NewReader(b)
		case []byte:
			rd = bytes.NewReader(b)
		default:
			j, _ := json.Marshal(b)
			rd = bytes.NewReader(j)
		}
	}
	req := httptest.NewRequest(method, "http://"+n.Name+".sim"+path, rd)
	req.Header.Set("Content-Type", "application/json")
	for i := 0; i+1 < len(hdr); i += 2 {
		req.Header.Set(hdr[i], hdr[i+1])
	}
	rec := httptest.NewRecorder()
	n.serveGuarded(rec, req, "api "+method+" "+path)
	if n.W.RecordAPI {
		n.W.apiMu.Lock()
		if len(n.W.APILog) < 5000 {
			hdrs := ""
			for k, v := range rec.Header() {
				hdrs += k + ": " + strings.Join(v, ",") + "\n"
			}
			n.W.APILog = append(n.W.APILog, append([]byte(method+" "+path+"\n"+hdrs), rec.Body.Bytes()...))
		}
		n.W.apiMu.Unlock()
	}
	return rec.Code, rec.Body.Bytes()
}

// Serve runs an http.Request against the node's router.
func (n *Node) Serve(req *http.Request) *http.Response {
	rec := httptest.NewRecorder()
	n.serveGuarded(rec, req, "http "+req.Method+" "+req.URL.Path)
	return rec.Result()
}

// serveGuarded runs the router; with World.OnPanic set, a panic of a handler (net/http would
// log it and cut the connection) is reported and answered with status 500.
func (n *Node) serveGuarded(rec *httptest.ResponseRecorder, req *http.Request, where string) {
	if n.W.OnPanic != nil {
		defer func() {
			if v := recover(); v != nil {
				n.W.OnPanic(n.Name+" "+where, v, debug.Stack())
				rec.Code = 500
			}
		}()
	}
	n.Echo.ServeHTTP(rec, req)
}

//go:embed testdata/policy.json
var policyJSON []byte

//go:embed testdata/discovery.json
var discoveryJSON []byte

// webConfig writes the policy mapping and the discovery definition of a web node and points
// its configuration at them.
func (w *World) webConfig(n *Node, env map[string]string) {
	o := n.Opts
	os.MkdirAll(n.Dir+"/policy", 0o755)
	os.WriteFile(n.Dir+"/policy/mapping.json", policyJSON, 0o644)
	env["NUTS_POLICY_DIRECTORY"] = n.Dir + "/policy"
	env["NUTS_AUTH_CONTRACTVALIDATORS"] = "dummy"
	if o.DiscoveryHost != "" {
		os.MkdirAll(n.Dir+"/discovery", 0o755)
		def := bytes.ReplaceAll(discoveryJSON, []byte("__SERVER__"), []byte(o.DiscoveryHost))
		os.WriteFile(n.Dir+"/discovery/definition.json", def, 0o644)
		env["NUTS_DISCOVERY_DEFINITIONS_DIRECTORY"] = n.Dir + "/discovery"
		if o.DiscoveryServer {
			env["NUTS_DISCOVERY_SERVER_IDS"] = "sim-svc"
		}
	}
	if o.ConfigYAML != "" {
		os.WriteFile(n.Dir+"/nuts.yaml", []byte(o.ConfigYAML), 0o644)
		env["NUTS_CONFIGFILE"] = n.Dir + "/nuts.yaml"
	}
}
