package world

import (
	"bytes"
	"context"
	"crypto/ecdsa"
	"crypto/elliptic"
	"crypto/rand"
	"crypto/sha256"
	"encoding/base64"
	"encoding/json"
	"fmt"
	"sort"
	"strings"
	"time"

	"github.com/lestrrat-go/jwx/v2/jwa"
	"github.com/lestrrat-go/jwx/v2/jwk"
	"github.com/lestrrat-go/jwx/v2/jws"
	"github.com/nuts-foundation/nuts-node/crypto/dpop"
	"github.com/nuts-foundation/nuts-node/crypto/hash"
	"github.com/nuts-foundation/nuts-node/network/dag"
)

// MemSigner signs with one in-memory key (workload side: it builds the transactions that are
// offered to the node; the node's own key store is not involved).
type MemSigner struct{ Key *ecdsa.PrivateKey }

func (m MemSigner) SignJWT(context.Context, map[string]interface{}, map[string]interface{}, string) (string, error) {
	panic("not used")
}
func (m MemSigner) SignJWS(_ context.Context, payload []byte, headers map[string]interface{}, _ string, _ bool) (string, error) {
	hdr := jws.NewHeaders()
	for k, v := range headers {
		if err := hdr.Set(k, v); err != nil {
			return "", err
		}
	}
	b, err := jws.Sign(payload, jws.WithKey(jwa.ES256, m.Key, jws.WithProtectedHeaders(hdr)))
	return string(b), err
}
func (m MemSigner) SignDPoP(context.Context, dpop.DPoP, string) (string, error) { panic("not used") }

// NewKey generates a P-256 key from the run's deterministic randomness.
func NewKey() *ecdsa.PrivateKey {
	k, err := ecdsa.GenerateKey(elliptic.P256(), rand.Reader)
	if err != nil {
		panic(err)
	}
	return k
}

// CTx is a corpus transaction with its ground truth.
type CTx struct {
	Tx      dag.Transaction // nil if the bytes do not parse
	Raw     []byte
	Payload []byte // payload offered together with it (may be nil or wrong on purpose)
	Ref     hash.SHA256Hash
	Prevs   []hash.SHA256Hash
	LC      uint32
	// Valid: the transaction itself is valid by construction (given its prevs are present).
	Valid bool
	// Defect names the defect applied by construction ("" if valid).
	Defect string
	// PayloadDefect: the offered payload does not hash to the declared payload hash.
	PayloadDefect bool
	// Root: has no prevs.
	Root bool
	// Base is the valid transaction a mutant was derived from.
	Base *CTx
	Idx  int
}

func (c *CTx) String() string {
	d := c.Defect
	if d == "" {
		d = "valid"
	}
	return fmt.Sprintf("tx#%d lc=%d prevs=%d %s %s", c.Idx, c.LC, len(c.Prevs), d, c.Ref.String()[:8])
}

// Corpus generates transactions. All randomness comes from the chooser (decisions).
type Corpus struct {
	Choose func(label string, n int) int
	Keys   []*ecdsa.PrivateKey
	Valid  []*CTx // valid transactions in a causal order
	n      int
	Tag    string
	Now    func() time.Time
	// NextPAL, if set, makes the next ExtendOn transaction a private one with this (opaque) participant list.
	NextPAL dag.EncryptedPAL
}

// NewCorpus makes a corpus with a few signing keys.
func NewCorpus(tag string, choose func(label string, n int) int) *Corpus {
	c := &Corpus{Choose: choose, Tag: tag, Now: time.Now}
	for i := 0; i < 3; i++ {
		c.Keys = append(c.Keys, NewKey())
	}
	return c
}

func maxLC(prevs []*CTx) uint32 {
	var m uint32
	for _, p := range prevs {
		if p.LC+1 > m {
			m = p.LC + 1
		}
	}
	return m
}

func refs(prevs []*CTx) []hash.SHA256Hash {
	var r []hash.SHA256Hash
	for _, p := range prevs {
		r = append(r, p.Ref)
	}
	return r
}

// SignValid builds a valid transaction through the repository's own constructor and signer.
func (c *Corpus) SignValid(prevs []*CTx, payload []byte, payloadType string, key *ecdsa.PrivateKey, pal dag.EncryptedPAL) *CTx {
	lc := maxLC(prevs)
	utx, err := dag.NewTransaction(hash.SHA256Sum(payload), payloadType, refs(prevs), pal, lc)
	if err != nil {
		panic(err)
	}
	tx, err := dag.NewTransactionSigner(MemSigner{key}, "", key.Public()).Sign(context.Background(), utx, c.Now())
	if err != nil {
		panic(err)
	}
	c.n++
	return &CTx{Tx: tx, Raw: tx.Data(), Payload: payload, Ref: tx.Ref(), Prevs: tx.Previous(), LC: lc, Valid: true, Root: len(prevs) == 0, Idx: c.n}
}

// Root creates a root transaction.
func (c *Corpus) Root() *CTx {
	t := c.SignValid(nil, []byte(c.Tag+"-root-"+fmt.Sprint(c.n)), "foo/root", c.Keys[0], nil)
	c.Valid = append(c.Valid, t)
	return t
}

// Extend adds one valid transaction on top of the corpus: 1..3 prevs chosen among existing
// transactions with a bias to recent ones (chains, branches and merges appear).
func (c *Corpus) Extend(label string) *CTx {
	n := len(c.Valid)
	if n == 0 {
		return c.Root()
	}
	k := 1
	switch c.Choose(label+" nprevs", 6) {
	case 4:
		k = 2
	case 5:
		k = 3
	}
	var prevs []*CTx
	seen := map[int]bool{}
	for i := 0; i < k; i++ {
		var idx int
		if c.Choose(label+" recent", 4) != 3 {
			w := 3
			if n < w {
				w = n
			}
			idx = n - 1 - c.Choose(label+" back", w)
		} else {
			idx = c.Choose(label+" any", n)
		}
		if !seen[idx] {
			seen[idx] = true
			prevs = append(prevs, c.Valid[idx])
		}
	}
	payload := []byte(fmt.Sprintf("%s-payload-%d", c.Tag, c.n))
	if n > 2 && c.Choose(label+" reuse-payload", 8) == 7 {
		// the same content again in another transaction (e.g. a document changed back)
		if old := c.Valid[c.Choose(label+" reuse-which", n)]; old.Payload != nil && !old.Root {
			payload = old.Payload
		}
	}
	ptype := "foo/bar"
	if c.Choose(label+" ptype", 4) == 3 {
		ptype = "foo/baz"
	}
	t := c.SignValid(prevs, payload, ptype, c.Keys[c.Choose(label+" key", len(c.Keys))], nil)
	c.Valid = append(c.Valid, t)
	return t
}

// Chain adds count transactions as a linear chain from the given start (cheap way to cross
// page boundaries).
func (c *Corpus) Chain(from *CTx, count int, tag string) []*CTx {
	var out []*CTx
	prev := from
	for i := 0; i < count; i++ {
		payload := []byte(fmt.Sprintf("%s-%s-%d", c.Tag, tag, i))
		t := c.SignValid([]*CTx{prev}, payload, "foo/bar", c.Keys[i%len(c.Keys)], nil)
		c.Valid = append(c.Valid, t)
		out = append(out, t)
		prev = t
	}
	return out
}

// ---- mutants: transactions whose defect is known by construction ----

// rawSpec is the low-level description of a JWS transaction.
type rawSpec struct {
	headers  map[string]interface{}
	payload  []byte // JWS payload (hex of payload hash)
	signKey  *ecdsa.PrivateKey
	alg      jwa.SignatureAlgorithm
	hmacKey  []byte
	postEdit func(compact string) string
}

func baseSpec(prevs []hash.SHA256Hash, lc uint32, payloadHash hash.SHA256Hash, ctype string, key *ecdsa.PrivateKey, sigt time.Time) rawSpec {
	prevsAsString := make([]string, len(prevs))
	for i, p := range prevs {
		prevsAsString[i] = p.String()
	}
	pub, _ := jwk.FromRaw(key.Public())
	_ = pub.Set(jwk.KeyIDKey, "")
	return rawSpec{
		headers: map[string]interface{}{
			jws.ContentTypeKey: ctype,
			jws.CriticalKey:    []string{"sigt", "ver", "prevs", "lc"},
			"sigt":             sigt.UTC().Unix(),
			"prevs":            prevsAsString,
			"ver":              1,
			"lc":               lc,
			jws.JWKKey:         pub,
		},
		payload: []byte(payloadHash.String()),
		signKey: key,
		alg:     jwa.ES256,
	}
}

func (r rawSpec) build() ([]byte, error) {
	hdr := jws.NewHeaders()
	for k, v := range r.headers {
		if err := hdr.Set(k, v); err != nil {
			return nil, err
		}
	}
	var b []byte
	var err error
	if r.hmacKey != nil {
		b, err = jws.Sign(r.payload, jws.WithKey(r.alg, r.hmacKey, jws.WithProtectedHeaders(hdr)))
	} else {
		b, err = jws.Sign(r.payload, jws.WithKey(r.alg, r.signKey, jws.WithProtectedHeaders(hdr)))
	}
	if err != nil {
		return nil, err
	}
	if r.postEdit != nil {
		b = []byte(r.postEdit(string(b)))
	}
	return b, nil
}

// MutantKinds lists the defects the corpus can apply.
var MutantKinds = []string{
	"lc+1", "lc-1", "unknown-prev", "wrong-payload", "sig-other-key", "sig-tampered", "kid-and-jwk", "no-kid-no-jwk",
	"alg-hmac", "alg-none", "no-sigt", "no-ver", "no-prevs", "no-lc", "ver-3", "second-root", "two-signatures", "header-tampered",
	"payload-hash-tampered", "kid-unknown", "lc-of-lower-prev", "lc-of-lower-prev", "wrong-payload-known-hash", "wrong-payload-known-hash",
}

// Mutant derives a defective transaction from a valid one. prevs are the CTx the base refers
// to. It returns nil if the defect cannot be applied to this base.
func (c *Corpus) Mutant(kind string, base *CTx, prevs []*CTx) *CTx {
	key := c.Keys[c.Choose("mutant key", len(c.Keys))]
	payload := []byte(fmt.Sprintf("%s-mutant-%d-%s", c.Tag, c.n, kind))
	if kind == "wrong-payload-known-hash" {
		// declares the payload hash of the base transaction, whose payload the node may already hold
		if base == nil || base.Payload == nil {
			return nil
		}
		payload = base.Payload
	}
	c.n++
	ph := hash.SHA256Sum(payload)
	lc := maxLC(prevs)
	spec := baseSpec(refs(prevs), lc, ph, "foo/bar", key, c.Now())
	m := &CTx{Payload: payload, Prevs: refs(prevs), LC: lc, Defect: kind, Base: base, Idx: c.n}
	switch kind {
	case "lc+1":
		spec.headers["lc"] = lc + 1
		m.LC = lc + 1
	case "lc-1":
		if lc == 0 {
			return nil
		}
		spec.headers["lc"] = lc - 1
		m.LC = lc - 1
	case "lc-of-lower-prev":
		// several prevs with different clocks, the lowest listed first, and the clock derived from it
		if len(prevs) < 2 {
			return nil
		}
		sorted := append([]*CTx(nil), prevs...)
		sort.SliceStable(sorted, func(i, j int) bool { return sorted[i].LC < sorted[j].LC })
		if sorted[0].LC == sorted[len(sorted)-1].LC {
			return nil
		}
		var ps []string
		for _, p := range sorted {
			ps = append(ps, p.Ref.String())
		}
		spec.headers["prevs"] = ps
		spec.headers["lc"] = sorted[0].LC + 1
		m.LC = sorted[0].LC + 1
		m.Prevs = refs(sorted)
	case "unknown-prev":
		bogus := hash.SHA256Sum([]byte(fmt.Sprintf("bogus-%d", c.n)))
		spec.headers["prevs"] = append(append([]string{}, spec.headers["prevs"].([]string)...), bogus.String())
		m.Prevs = append(append([]hash.SHA256Hash{}, m.Prevs...), bogus)
	case "wrong-payload-known-hash":
		// a valid transaction that declares a payload hash the node knows, offered with other bytes
		m.PayloadDefect = true
		m.Valid = true
		m.Payload = append([]byte("Y"), payload...)
	case "wrong-payload":
		// the transaction itself is fine; the payload offered with it is not the declared one
		m.PayloadDefect = true
		m.Valid = true
		m.Payload = append([]byte("X"), payload...)
	case "sig-other-key":
		other := NewKey()
		pub, _ := jwk.FromRaw(other.Public())
		spec.headers[jws.JWKKey] = pub
	case "sig-tampered":
		spec.postEdit = func(s string) string {
			parts := strings.Split(s, ".")
			sig, _ := base64.RawURLEncoding.DecodeString(parts[2])
			sig[len(sig)/2] ^= 0x40
			parts[2] = base64.RawURLEncoding.EncodeToString(sig)
			return strings.Join(parts, ".")
		}
	case "header-tampered":
		// change the clock in the protected header after signing
		spec.postEdit = func(s string) string {
			parts := strings.Split(s, ".")
			h, _ := base64.RawURLEncoding.DecodeString(parts[0])
			var hm map[string]interface{}
			json.Unmarshal(h, &hm)
			hm["sigt"] = c.Now().Unix() + 77
			h2, _ := json.Marshal(hm)
			parts[0] = base64.RawURLEncoding.EncodeToString(h2)
			return strings.Join(parts, ".")
		}
	case "payload-hash-tampered":
		spec.postEdit = func(s string) string {
			parts := strings.Split(s, ".")
			parts[1] = base64.RawURLEncoding.EncodeToString([]byte(hash.SHA256Sum([]byte("other")).String()))
			return strings.Join(parts, ".")
		}
		m.Payload = []byte("other")
	case "kid-and-jwk":
		spec.headers[jws.KeyIDKey] = "did:nuts:abc#key-1"
	case "no-kid-no-jwk":
		delete(spec.headers, jws.JWKKey)
	case "kid-unknown":
		delete(spec.headers, jws.JWKKey)
		spec.headers[jws.KeyIDKey] = "did:nuts:4tzMaWfpizVKeA8fscC3JTdWBc3asUWWMj5hUFHdWX3H#unknown-key"
	case "alg-hmac":
		spec.alg = jwa.HS256
		spec.hmacKey = []byte("0123456789abcdef0123456789abcdef")
	case "alg-none":
		spec.postEdit = func(s string) string {
			parts := strings.Split(s, ".")
			h, _ := base64.RawURLEncoding.DecodeString(parts[0])
			var hm map[string]interface{}
			json.Unmarshal(h, &hm)
			hm["alg"] = "none"
			h2, _ := json.Marshal(hm)
			return base64.RawURLEncoding.EncodeToString(h2) + "." + parts[1] + "."
		}
	case "no-sigt":
		delete(spec.headers, "sigt")
		spec.headers[jws.CriticalKey] = []string{"ver", "prevs", "lc"}
	case "no-ver":
		delete(spec.headers, "ver")
		spec.headers[jws.CriticalKey] = []string{"sigt", "prevs", "lc"}
	case "no-prevs":
		delete(spec.headers, "prevs")
		spec.headers[jws.CriticalKey] = []string{"sigt", "ver", "lc"}
	case "no-lc":
		delete(spec.headers, "lc")
		spec.headers[jws.CriticalKey] = []string{"sigt", "ver", "prevs"}
	case "ver-3":
		spec.headers["ver"] = 3
	case "second-root":
		spec.headers["prevs"] = []string{}
		spec.headers["lc"] = 0
		m.Prevs, m.LC, m.Root = nil, 0, true
	case "two-signatures":
		spec.postEdit = func(s string) string {
			parts := strings.Split(s, ".")
			other := NewKey()
			hdr := jws.NewHeaders()
			for k, v := range spec.headers {
				hdr.Set(k, v)
			}
			b2, _ := jws.Sign(spec.payload, jws.WithKey(jwa.ES256, other, jws.WithProtectedHeaders(hdr)))
			p2 := strings.Split(string(b2), ".")
			js := map[string]interface{}{
				"payload": parts[1],
				"signatures": []map[string]string{
					{"protected": parts[0], "signature": parts[2]},
					{"protected": p2[0], "signature": p2[2]},
				},
			}
			out, _ := json.Marshal(js)
			return string(out)
		}
	default:
		panic("unknown mutant " + kind)
	}
	raw, err := spec.build()
	if err != nil {
		return nil
	}
	m.Raw = raw
	m.Ref = hash.SHA256Sum(raw)
	if tx, err := dag.ParseTransaction(raw); err == nil {
		m.Tx = tx
		m.Ref = tx.Ref()
		if !bytes.Equal(tx.Data(), raw) {
			m.Raw = tx.Data()
		}
	}
	return m
}

// MutantKid builds a transaction that names an existing key id (kid header, no embedded key)
// but is signed with a key the DID document does not list.
func (c *Corpus) MutantKid(kid string, prevs []*CTx) *CTx {
	key := NewKey()
	payload := []byte(fmt.Sprintf("%s-mutant-%d-kid", c.Tag, c.n))
	c.n++
	lc := maxLC(prevs)
	spec := baseSpec(refs(prevs), lc, hash.SHA256Sum(payload), "foo/bar", key, c.Now())
	delete(spec.headers, jws.JWKKey)
	spec.headers[jws.KeyIDKey] = kid
	raw, err := spec.build()
	if err != nil {
		return nil
	}
	m := &CTx{Payload: payload, Prevs: refs(prevs), LC: lc, Defect: "kid-wrong-key", Idx: c.n, Raw: raw, Ref: hash.SHA256Sum(raw)}
	if tx, err := dag.ParseTransaction(raw); err == nil {
		m.Tx = tx
		m.Ref = tx.Ref()
	}
	return m
}

// ExtendOn adds one valid transaction whose prevs are chosen inside the given view only (the
// part of the DAG one node knows). The caller keeps the views.
func (c *Corpus) ExtendOn(view []*CTx, label string) *CTx {
	n := len(view)
	k := 1
	switch c.Choose(label+" nprevs", 6) {
	case 4:
		k = 2
	case 5:
		k = 3
	}
	var prevs []*CTx
	seen := map[int]bool{}
	for i := 0; i < k; i++ {
		var idx int
		if c.Choose(label+" recent", 4) != 3 {
			w := 3
			if n < w {
				w = n
			}
			idx = n - 1 - c.Choose(label+" back", w)
		} else {
			idx = c.Choose(label+" any", n)
		}
		if !seen[idx] {
			seen[idx] = true
			prevs = append(prevs, view[idx])
		}
	}
	payload := []byte(fmt.Sprintf("%s-%s-payload-%d", c.Tag, label, c.n))
	pal := c.NextPAL
	c.NextPAL = nil
	t := c.SignValid(prevs, payload, "foo/bar", c.Keys[c.Choose(label+" key", len(c.Keys))], pal)
	if pal != nil {
		t.Payload = nil // a private transaction of other parties: nobody here has its payload
	}
	return t
}

// SignWith builds a transaction through the repository's own constructor and signer with full
// control over how the key is referenced: embedded (kid == "") or by key id.
func (c *Corpus) SignWith(prevRefs []hash.SHA256Hash, lc uint32, payload []byte, payloadType string, key *ecdsa.PrivateKey, kid string) (*CTx, error) {
	utx, err := dag.NewTransaction(hash.SHA256Sum(payload), payloadType, prevRefs, nil, lc)
	if err != nil {
		return nil, err
	}
	var signer dag.TransactionSigner
	if kid == "" {
		signer = dag.NewTransactionSigner(MemSigner{key}, "", key.Public())
	} else {
		signer = dag.NewTransactionSigner(MemSigner{key}, kid, nil)
	}
	tx, err := signer.Sign(context.Background(), utx, c.Now())
	if err != nil {
		return nil, err
	}
	c.n++
	return &CTx{Tx: tx, Raw: tx.Data(), Payload: payload, Ref: tx.Ref(), Prevs: tx.Previous(), LC: lc, Valid: true, Idx: c.n}, nil
}

// RawJWS signs arbitrary header JSON (no validation of header member types whatsoever) and a
// payload with ES256: for transactions whose protected header carries type-confused members.
func RawJWS(headerJSON, payload []byte, key *ecdsa.PrivateKey) []byte {
	in := base64.RawURLEncoding.EncodeToString(headerJSON) + "." + base64.RawURLEncoding.EncodeToString(payload)
	return []byte(in + "." + SignES256(in, key))
}

// SignES256 returns the base64url ES256 signature over the signing input.
func SignES256(signingInput string, key *ecdsa.PrivateKey) string {
	h := sha256.Sum256([]byte(signingInput))
	r, s, err := ecdsa.Sign(rand.Reader, key, h[:])
	if err != nil {
		panic(err)
	}
	sig := make([]byte, 64)
	r.FillBytes(sig[:32])
	s.FillBytes(sig[32:])
	return base64.RawURLEncoding.EncodeToString(sig)
}

// TxHeaderJSON is the protected header of a valid transaction (embedded key) as JSON.
func TxHeaderJSON(prevs []hash.SHA256Hash, lc uint32, ctype string, key *ecdsa.PrivateKey, sigt time.Time) []byte {
	spec := baseSpec(prevs, lc, hash.SHA256Hash{}, ctype, key, sigt)
	spec.headers["alg"] = "ES256"
	b, _ := json.Marshal(spec.headers)
	return b
}
