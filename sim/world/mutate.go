package world

import (
	"bytes"
	"encoding/base64"
	"encoding/json"
	"fmt"
	"net/url"
	"sort"
	"strings"
)

// Structure-aware mutation of valid instances (for C19): an order-preserving JSON tree, one
// seeded mutation per call (type confusion, missing / null / duplicated / renamed members,
// extreme numbers, truncation, unusual but well-formed combinations), and carriers built on
// it: compact JWTs (header or claims mutated, signature kept or re-made by the caller) and
// HTML form bodies.

// Chooser draws one of n alternatives for a labelled decision.
type Chooser func(label string, n int) int

type jkind int

const (
	jObj jkind = iota
	jArr
	jLit
)

type jkv struct {
	k string
	v *jnode
}

type jnode struct {
	kind jkind
	obj  []jkv
	arr  []*jnode
	lit  string // raw JSON of a literal
}

func parseJNode(dec *json.Decoder) (*jnode, error) {
	tok, err := dec.Token()
	if err != nil {
		return nil, err
	}
	switch t := tok.(type) {
	case json.Delim:
		switch t {
		case '{':
			n := &jnode{kind: jObj}
			for dec.More() {
				kt, err := dec.Token()
				if err != nil {
					return nil, err
				}
				v, err := parseJNode(dec)
				if err != nil {
					return nil, err
				}
				n.obj = append(n.obj, jkv{kt.(string), v})
			}
			_, err := dec.Token()
			return n, err
		case '[':
			n := &jnode{kind: jArr}
			for dec.More() {
				v, err := parseJNode(dec)
				if err != nil {
					return nil, err
				}
				n.arr = append(n.arr, v)
			}
			_, err := dec.Token()
			return n, err
		}
		return nil, fmt.Errorf("unexpected delimiter %v", t)
	case json.Number:
		return &jnode{kind: jLit, lit: t.String()}, nil
	default:
		b, _ := json.Marshal(t)
		return &jnode{kind: jLit, lit: string(b)}, nil
	}
}

func (n *jnode) write(b *bytes.Buffer) {
	switch n.kind {
	case jObj:
		b.WriteByte('{')
		for i, kv := range n.obj {
			if i > 0 {
				b.WriteByte(',')
			}
			k, _ := json.Marshal(kv.k)
			b.Write(k)
			b.WriteByte(':')
			kv.v.write(b)
		}
		b.WriteByte('}')
	case jArr:
		b.WriteByte('[')
		for i, v := range n.arr {
			if i > 0 {
				b.WriteByte(',')
			}
			v.write(b)
		}
		b.WriteByte(']')
	default:
		b.WriteString(n.lit)
	}
}

type jslot struct {
	parent *jnode
	idx    int
	path   string
	node   *jnode
}

func (n *jnode) slots(path string, parent *jnode, idx int, out *[]jslot) {
	*out = append(*out, jslot{parent, idx, path, n})
	switch n.kind {
	case jObj:
		for i, kv := range n.obj {
			kv.v.slots(path+"/"+kv.k, n, i, out)
		}
	case jArr:
		for i, v := range n.arr {
			v.slots(fmt.Sprintf("%s/%d", path, i), n, i, out)
		}
	}
}

func lit(s string) *jnode { return &jnode{kind: jLit, lit: s} }

// replacement values for type confusion / extreme values; orig is the node being replaced
func confusions(orig *jnode) []struct {
	name string
	v    *jnode
} {
	long := `"` + strings.Repeat("A", 70000) + `"`
	deep := &jnode{kind: jArr}
	cur := deep
	for i := 0; i < 300; i++ {
		nx := &jnode{kind: jArr}
		cur.arr = []*jnode{nx}
		cur = nx
	}
	return []struct {
		name string
		v    *jnode
	}{
		{"null", lit("null")},
		{"true", lit("true")},
		{"zero", lit("0")},
		{"negative", lit("-1")},
		{"float", lit("1.5")},
		{"huge-number", lit("1e308")},
		{"beyond-uint64", lit("18446744073709551616")},
		{"min-int64", lit("-9223372036854775808")},
		{"empty-string", lit(`""`)},
		{"other-string", lit(`"x"`)},
		{"string-with-nul", lit(`"a\u0000b"`)},
		{"url-ish-string", lit(`"https://"`)},
		{"did-ish-string", lit(`"did:"`)},
		{"did-url-ish-string", lit(`"did:web:#"`)},
		{"long-string", lit(long)},
		{"empty-array", &jnode{kind: jArr}},
		{"array-of-self", &jnode{kind: jArr, arr: []*jnode{orig}}},
		{"array-of-self-twice", &jnode{kind: jArr, arr: []*jnode{orig, orig}}},
		{"array-of-null", &jnode{kind: jArr, arr: []*jnode{lit("null")}}},
		{"array-of-mixed", &jnode{kind: jArr, arr: []*jnode{lit("1"), lit(`"a"`), {kind: jObj}, lit("null")}}},
		{"empty-object", &jnode{kind: jObj}},
		{"object-with-self-as-id", &jnode{kind: jObj, obj: []jkv{{"id", orig}}}},
		{"object-with-null-members", &jnode{kind: jObj, obj: []jkv{{"id", lit("null")}, {"type", lit("null")}}}},
		{"deeply-nested-array", deep},
	}
}

// HotPaths are path fragments of the members that parsers and validators look at most.
var HotPaths = []string{"credentialSubject", "/type", "/proof", "constraints", "verificationMethod", "submission_requirements", "descriptor_map",
	"credentialStatus", "/pal", "/prevs", "/jwk", "/crit", "assertionMethod", "capabilityInvocation", "/service", "/vp", "/vc", "/nonce", "/aud", "/exp", "/nbf", "/iat", "encodedList", "issuer", "@context", "/jti", "/iss", "/sub", "/holder", "entries"}

// MutateJSON applies one seeded mutation to a JSON document. It returns the mutated bytes
// and a description, or (nil, "") when raw is not JSON.
func MutateJSON(raw []byte, choose Chooser) ([]byte, string) {
	dec := json.NewDecoder(bytes.NewReader(raw))
	dec.UseNumber()
	root, err := parseJNode(dec)
	if err != nil {
		return nil, ""
	}
	var sl []jslot
	root.slots("", nil, 0, &sl)
	sl0 := sl
	// half of the time the mutation lands in a part that the node acts upon rather than anywhere
	if choose("focus", 2) == 1 {
		var hot []jslot
		for _, x := range sl {
			for _, h := range HotPaths {
				if strings.Contains(x.path, h) {
					hot = append(hot, x)
					break
				}
			}
		}
		if len(hot) > 0 {
			sl = hot
		}
	}
	s := sl[choose("node", len(sl))]
	kinds := []string{"confuse", "confuse", "confuse", "delete", "null", "duplicate", "rename", "swap", "truncate", "empty-container", "drop-first-element", "wrap-root",
		"insert-member", "inner-jwt", "inner-jwt"}
	kind := kinds[choose("mutation", len(kinds))]
	desc := kind + " " + s.path
	set := func(v *jnode) {
		switch {
		case s.parent == nil:
			root = v
		case s.parent.kind == jObj:
			s.parent.obj[s.idx].v = v
		default:
			s.parent.arr[s.idx] = v
		}
	}
	truncateAt := -1
	switch kind {
	case "confuse":
		c := confusions(s.node)
		// prefer a value of another JSON type than the original
		pick := c[choose("value", len(c))]
		desc += " -> " + pick.name
		set(pick.v)
	case "null":
		set(lit("null"))
	case "delete":
		switch {
		case s.parent == nil:
			root = lit("null")
		case s.parent.kind == jObj:
			s.parent.obj = append(append([]jkv{}, s.parent.obj[:s.idx]...), s.parent.obj[s.idx+1:]...)
		default:
			s.parent.arr = append(append([]*jnode{}, s.parent.arr[:s.idx]...), s.parent.arr[s.idx+1:]...)
		}
	case "duplicate":
		switch {
		case s.parent == nil:
		case s.parent.kind == jObj:
			c := confusions(s.node)
			pick := c[choose("value", len(c))]
			desc += " with " + pick.name
			dup := jkv{s.parent.obj[s.idx].k, pick.v}
			if choose("dup-first", 2) == 1 {
				s.parent.obj = append([]jkv{dup}, s.parent.obj...)
			} else {
				s.parent.obj = append(s.parent.obj, dup)
			}
		default:
			s.parent.arr = append(s.parent.arr, s.node)
		}
	case "rename":
		if s.parent != nil && s.parent.kind == jObj {
			k := s.parent.obj[s.idx].k
			variants := []string{strings.ToUpper(k), k + " ", "@" + k, strings.TrimPrefix(k, "@"), k + "\u0000", ""}
			nk := variants[choose("name", len(variants))]
			desc += fmt.Sprintf(" -> %q", nk)
			s.parent.obj[s.idx].k = nk
		}
	case "swap":
		if s.parent != nil {
			var n int
			if s.parent.kind == jObj {
				n = len(s.parent.obj)
			} else {
				n = len(s.parent.arr)
			}
			o := choose("sibling", n)
			if s.parent.kind == jObj {
				s.parent.obj[s.idx].v, s.parent.obj[o].v = s.parent.obj[o].v, s.parent.obj[s.idx].v
			} else {
				s.parent.arr[s.idx], s.parent.arr[o] = s.parent.arr[o], s.parent.arr[s.idx]
			}
			desc += fmt.Sprintf(" with sibling %d", o)
		}
	case "truncate":
		truncateAt = choose("truncate-at", 1000)
	case "empty-container":
		switch s.node.kind {
		case jObj:
			set(&jnode{kind: jObj})
		case jArr:
			set(&jnode{kind: jArr})
		default:
			set(lit(`""`))
		}
	case "drop-first-element":
		switch s.node.kind {
		case jObj:
			if len(s.node.obj) > 0 {
				s.node.obj = s.node.obj[1:]
			}
		case jArr:
			if len(s.node.arr) > 0 {
				s.node.arr = s.node.arr[1:]
			}
		}
	case "wrap-root":
		root = &jnode{kind: jArr, arr: []*jnode{root}}
	case "insert-member":
		// a member the instance does not have, with a value of a seeded type; into a JSON-LD context an object carrying it
		names := []string{"@base", "@context", "id", "type", "controller", "proof", "nonce", "exp", "kid", "jwk", "pal", "crit", "holder", "issuer", "credentialStatus", "verifiableCredential"}
		name := names[choose("member", len(names))]
		c := confusions(lit(`"x"`))
		pick := c[choose("value", len(c))]
		desc += fmt.Sprintf(" %q = %s", name, pick.name)
		target := s.node
		if target.kind != jObj && s.parent != nil && s.parent.kind == jObj {
			target = s.parent
		}
		switch target.kind {
		case jObj:
			target.obj = append(target.obj, jkv{name, pick.v})
		case jArr:
			target.arr = append(target.arr, &jnode{kind: jObj, obj: []jkv{{name, pick.v}}})
		default:
			set(&jnode{kind: jObj, obj: []jkv{{name, pick.v}}})
		}
	case "inner-jwt":
		// a compact JWT carried as a string somewhere in the document (a presentation in a list, a credential in a
		// presentation): mutate its header or claims, keep its signature
		var jwts []jslot
		for _, x := range sl0 {
			if x.node.kind == jLit && strings.HasPrefix(x.node.lit, `"ey`) && strings.Count(x.node.lit, ".") == 2 {
				jwts = append(jwts, x)
			}
		}
		if len(jwts) == 0 {
			set(lit("null"))
			desc = "null " + s.path
			break
		}
		j := jwts[choose("jwt", len(jwts))]
		var tok string
		_ = json.Unmarshal([]byte(j.node.lit), &tok)
		if m, d := MutateJWT(tok, choose, nil); m != "" {
			q, _ := json.Marshal(m)
			j.node.lit = string(q)
			desc = "inner JWT at " + j.path + ": " + d
		}
	}
	var b bytes.Buffer
	root.write(&b)
	out := b.Bytes()
	if truncateAt >= 0 && len(out) > 1 {
		cut := 1 + truncateAt*(len(out)-1)/1000
		out = out[:cut]
		desc += fmt.Sprintf(" at byte %d of %d", cut, b.Len())
	}
	return out, desc
}

// MutateJWT mutates the header or the claims of a compact JWS/JWT. If resign is nil the
// original signature is kept (the token no longer verifies, but everything that is parsed
// before the signature check sees the mutation); otherwise resign makes a new signature over
// the mutated signing input.
func MutateJWT(token string, choose Chooser, resign func(signingInput string) string) (string, string) {
	parts := strings.Split(token, ".")
	if len(parts) != 3 {
		return "", ""
	}
	which := choose("jwt-part", 3)
	if which > 1 {
		which = 1 // claims twice as often as the header
	}
	raw, err := base64.RawURLEncoding.DecodeString(parts[which])
	if err != nil {
		return "", ""
	}
	m, desc := MutateJSON(raw, choose)
	if m == nil {
		return "", ""
	}
	parts[which] = base64.RawURLEncoding.EncodeToString(m)
	if resign != nil {
		parts[2] = resign(parts[0] + "." + parts[1])
	}
	return strings.Join(parts, "."), []string{"jwt-header: ", "jwt-claims: "}[which] + desc
}

// MutateValue mutates a string that may be JSON, a compact JWT or plain text.
func MutateValue(v string, choose Chooser) (string, string) {
	t := strings.TrimSpace(v)
	if strings.HasPrefix(t, "{") || strings.HasPrefix(t, "[") {
		if m, d := MutateJSON([]byte(t), choose); m != nil {
			return string(m), d
		}
	}
	if strings.Count(t, ".") == 2 && strings.HasPrefix(t, "ey") {
		if m, d := MutateJWT(t, choose, nil); m != "" {
			return m, d
		}
	}
	// a JSON string literal (a compact JWT posted as application/json): mostly mutate what is inside the quotes
	if strings.HasPrefix(t, "\"") && strings.HasSuffix(t, "\"") && len(t) > 2 {
		var inner string
		if json.Unmarshal([]byte(t), &inner) == nil && inner != "" && choose("json-string", 4) != 3 {
			if m, d := MutateValue(inner, choose); d != "" {
				b, _ := json.Marshal(m)
				return string(b), "json-string: " + d
			}
		}
	}
	variants := []struct{ name, v string }{
		{"empty", ""}, {"long", strings.Repeat("A", 70000)}, {"nul", v + "\x00"}, {"truncated", v[:len(v)/2]},
		{"json-null", "null"}, {"json-array", "[]"}, {"json-object", "{}"}, {"number", "-1"}, {"doubled", v + v}, {"space", " " + v + " "},
		{"percent", "%zz" + v}, {"unicode", v + "\u202e\ufeff"},
	}
	p := variants[choose("text-mutation", len(variants))]
	return p.v, "text: " + p.name
}

// MutateForm mutates one field of an application/x-www-form-urlencoded body.
func MutateForm(body []byte, choose Chooser) ([]byte, string) {
	v, err := url.ParseQuery(string(body))
	if err != nil || len(v) == 0 {
		return nil, ""
	}
	var keys []string
	for k := range v {
		keys = append(keys, k)
	}
	sort.Strings(keys)
	k := keys[choose("form-field", len(keys))]
	switch choose("form-mutation", 6) {
	case 0:
		v.Del(k)
		return []byte(v.Encode()), "form: field " + k + " removed"
	case 1:
		v.Add(k, v.Get(k))
		return []byte(v.Encode()), "form: field " + k + " twice"
	default:
		m, d := MutateValue(v.Get(k), choose)
		v.Set(k, m)
		return []byte(v.Encode()), "form field " + k + ": " + d
	}
}
