"""Per-property configuration of the checks (budgets, phases, evidence texts)."""

COMPONENTS = {
    "real": [
        "network.Network engine (CreateTransaction, Subscribe, Start ordering), network/dag (state, dag, notifier, trees, repair)",
        "network/transport/v2 protocol (handlers, senders, conversations, gossip manager, payload scheduler)",
        "vdr (didnuts ambassador/didstore/validators/resolver, didweb, didsubject), vcr, auth/api/iam, discovery, policy",
        "storage engine (bbolt via go-stoabs, SQLite via gorm, goose migrations, in-memory session database), crypto, jsonld, http/client",
    ],
    "stub": [
        "gRPC connection manager and TLS (replaced by the simulated peer-to-peer transport)",
        "NATS event manager (no-op JetStream)",
        "HTTP listeners / http engine (requests enter the echo router in-process)",
        "PKI CRL/denylist fetching, IRMA, Redis/Memcached/Vault/Azure back-ends",
    ],
}

KV_ASSUME = [
    "bbolt and SQLite commits are atomic: a crash is modelled as 'the last commit happened or did not'; torn writes inside an engine commit are not injected",
    "all nodes of a run share one virtual clock (forward jumps only); per-node clock skew is not simulated",
    "interleavings are explored at the granularity of store transactions, message deliveries, timer firings and workload operations; sections under an in-memory mutex are atomic steps",
]

PROPS = {
    "C08": {
        "test": "TestC08",
        "level": "fault_enumeration",
        "world": "A: one real Network engine node on wrapped bbolt stores",
        "rule": "enum phase: each case is a seeded DAG history with concurrent submitters; every KV fault point of the armed window "
                "(each Put/Delete of each write transaction, each commit, crash before/after commit, between AfterCommit hooks, before a write transaction) "
                "is fired once in turn; sampled phase: seeded histories, schedules and fault subsets. A run is non-trivial when at least one fault fired or one "
                "non-FIFO scheduling decision was taken and at least one Add reached the DAG; distinct = distinct (case, fault point) signatures in the enum "
                "phase plus distinct trace hashes in the sampled phase.",
        "invariants": ["C08.xor", "C08.iblt", "C08.index", "C08.reopen", "C08.repair"],
        "assumptions": KV_ASSUME,
        "probes_expected": ["restart-after-crash", "repair-restored", "kv.op-error", "kv.commit-fail", "crash.after-commit", "crash.before-commit", "crash.between-hooks"],
        "quick": {"phases": [
            {"name": "enum", "env": {"VERIF_MODE": "enum"}, "budget_s": 70, "chunk": 1, "base": 1000000},
            {"name": "sampled", "budget_s": 60, "chunk": 15},
        ]},
        "thorough": {"phases": [
            {"name": "enum", "env": {"VERIF_MODE": "enum"}, "budget_s": 900, "chunk": 1, "base": 1000000},
            {"name": "sampled", "budget_s": 900, "chunk": 15},
        ], "minimise_s": 180},
    },
    "C06": {
        "test": "TestC06",
        "level": "exploration",
        "world": "A: one real Network engine node with the real VDR ambassador and DID store",
        "rule": "each run: a seeded valid DAG corpus plus mutants with a defect known by construction (clock +-1, unknown prev, wrong payload, signature by "
                "another key, tampered signature/header/payload hash, kid and jwk, neither, unknown kid, kid signed by a key the DID document does not list, "
                "HMAC / none algorithm, missing critical headers, unsupported version, second root, two signatures), offered by 2-4 concurrent tasks with "
                "duplicates and out of causal order while the node creates transactions itself; one third of the runs inject KV operation errors and commit "
                "failures. Non-trivial: at least one non-FIFO scheduling decision or fault and at least one offer; distinct = distinct trace hashes.",
        "invariants": ["C06.valid-only", "C06.causal", "C06.accept", "C06.no-trace", "C06.once", "C06.payload"],
        "assumptions": KV_ASSUME + ["validity of a transaction is known by construction of the workload, not by re-implementing the parser or verifier"],
        "quick": {"budget_s": 100, "chunk": 15},
        "thorough": {"budget_s": 1500, "chunk": 15, "minimise_s": 180},
    },
    "C14": {
        "test": "TestC14",
        "level": "fault_enumeration",
        "world": "A: one real Network engine node; scripted persistent subscribers registered through Network.Subscribe at every start",
        "rule": "enum phase: each case is a seeded admission history with scripted subscribers (succeed / fail k times / incomplete k times / fatal / never); "
                "every crash point of the armed window (before a write transaction, before commit, after commit before the notification, between the "
                "AfterCommit hooks - for admission, retry bookkeeping and completion writes alike) is fired once in turn, each followed by a restart; "
                "sampled phase: seeded histories, schedules, fault subsets (crash points, KV errors in the admission path, restarts at arbitrary scheduler "
                "steps). Non-trivial: at least one receiver call and one fault or non-FIFO decision; distinct = (case, crash point) signatures plus trace hashes. One run in three (default scenario) admits a private transaction without payload after the faults and writes its payload later (new content or the content of an earlier transaction).",
        "invariants": ["C14.admitted-only", "C14.at-least-once", "C14.failed-visible", "C14.no-redelivery", "C14.backoff", "C14.replay-at-start", "C14.budget"],
        "assumptions": KV_ASSUME + ["storage errors are injected in the admission path only; the fault model of delivery is the process stop and the subscriber's own behaviour",
                                    "liveness clauses are evaluated 2 virtual hours after faults stop (10 retries take about 17 virtual minutes)"],
        "probes_expected": ["restart-after-crash", "restart-with-one-attempt-left", "subscriber-reported-unknown-context", "crash.after-commit", "crash.before-commit", "crash.between-hooks", "crash.any-step"],
        "quick": {"phases": [
            {"name": "enum", "env": {"VERIF_MODE": "enum"}, "budget_s": 70, "chunk": 1, "base": 1000000},
            {"name": "sampled", "budget_s": 60, "chunk": 10},
        ]},
        "thorough": {"phases": [
            {"name": "enum", "env": {"VERIF_MODE": "enum"}, "budget_s": 900, "chunk": 1, "base": 1000000},
            {"name": "sampled", "budget_s": 900, "chunk": 10},
        ], "minimise_s": 180},
    },
    "C07": {
        "test": "TestC07",
        "level": "exploration",
        "world": "A: 2-4 real Network engine nodes (real v2 protocol) on the simulated peer-to-peer transport",
        "rule": "each run: 2-4 nodes preloaded with their own valid DAGs on a shared root (disjoint branches, one side far behind, mixed, differences "
                "larger than one IBLT decodes, multi-page), full mesh or chain, seeded gossip interval; a fault phase with per-message drop, duplication, "
                "delay/reordering, send errors, stale replays of recorded envelopes, partitions/heals, node restarts, bursts and transaction creation, then a "
                "fair suffix. Non-trivial: at least one fault or non-FIFO decision and a non-empty difference; distinct = distinct decision hashes. Multi-page shape, third variant: two or more pages shared by all nodes, then disjoint branches on a later page that exceed one IBLT.",
        "invariants": ["C07.monotone", "C07.sound", "C07.converge"],
        "assumptions": KV_ASSUME + ["the gRPC connection manager is a stub: links deliver in order unless a delay fault reorders them",
                                    "the convergence budget is 20 x (gossip interval + 30 s conversation validity) x (pages + transactions/300 + 1) x (nodes-1) of virtual time after faults stop; evidence reports the largest observed fraction of it"],
        "probes_expected": ["net.drop", "net.duplicate", "net.delay-reorder", "net.send-error", "net.stale-replay", "net.partition", "crash.any-step", "burst-over-100"],
        "quick": {"budget_s": 150, "chunk": 4, "chunk_timeout_s": 1200},
        "thorough": {"budget_s": 2400, "chunk": 4, "minimise_s": 300, "chunk_timeout_s": 2400},
    },
    "C10": {
        "test": "TestC10",
        "level": "exploration",
        "world": "didstore-only: 3-5 independent real DID stores (real go-stoabs/bbolt under the KV seam)",
        "rule": "each run: a seeded set of accepted document events for 1-3 DIDs (creation, linear updates, forks from any earlier version, resolutions "
                "referencing all leaves, services, keys, 2-3 controllers, deactivation on a branch, equal signing times, clock gaps, foreign prevs) delivered "
                "to the stores in causal order (twice), seeded permutations and reverse order, with duplicates, a stop/reopen at a seeded position, and in "
                "one third of the runs KV operation errors, commit failures and crash points followed by redelivery. Non-trivial: more than two events; "
                "distinct = distinct decision hashes. Observation as-of-later: every DID resolved as of a time after all its updates, deactivated documents not allowed.",
        "invariants": ["C10.replicas", "C10.stable", "C10.deactivated", "C10.resolved", "C10.counts"],
        "assumptions": KV_ASSUME + ["event sets are generated directly at the store's interface (what the ambassador hands over after its checks); the path through gossip is covered by C07/C09",
                                    "violations whose trigger is Go map iteration order replay probabilistically; the replay command repeats (bounded) until the first reproduction"],
        "replay_attempts": 64,
        "quick": {"budget_s": 60, "chunk": 150},
        "thorough": {"budget_s": 900, "chunk": 150, "minimise_s": 120},
    },
    "C05": {
        "test": "TestC05",
        "level": "exploration",
        "world": "B: authorization-server node (session database on the simulator's cache store) and client node, real RFC021 and DPoP flows over the simulated HTTP transport",
        "rule": "each run obtains one valid one-time secret from the real flow - service-to-service presentation nonce (the client's real token request, lost on the "
                "wire once; also presentations dated ahead within the clock skew); DPoP proof id (real token, real proof); authorization code, stored request object "
                "(of either node) and OpenID4VP nonce / state (the real OpenID4VP user flow between the two nodes with the workload as the user's browser, the request "
                "carrying the value lost on the wire once) - presents it in 2-3 concurrent requests whose individual session-store operations are scheduling points, "
                "then replays it sequentially (+0 ... +36 min, or patiently once around the end of the stored value's lifetime); for the code also: a failed redemption "
                "attempt (wrong verifier / client id) first, then the right one. Distinct = distinct (kind, interleaving of store operations) signatures.",
        "invariants": ["C05.once.s2s-nonce", "C05.once.dpop-jti", "C05.once.authorization-code", "C05.once.request-object", "C05.once.openid4vp-nonce"],
        "assumptions": ["only the in-memory session database (default deployment) is simulated; Redis/Memcached back-ends are not"],
        "quick": {"budget_s": 60, "chunk": 25},
        "thorough": {"budget_s": 600, "chunk": 25, "minimise_s": 120},
    },
    "C11": {
        "test": "TestC11",
        "level": "exploration",
        "world": "B: issuer node with two did:web issuers (SQL seam) and a verifier node, real issuer / status-list / verifier code over the simulated HTTP transport; "
                 "one run in four: one real did:nuts node (network, DAG, notifier, VDR, VCR ambassador, verifier, revocation store) with the workload playing two issuers and an attacker on the network",
        "rule": "network world (1 run in 4): 5-12 operations out of issue (signed JSON-LD credential in a transaction), revoke by the issuer, revocation published before its credential "
                "(parallel DAG branches), forged revocation (another member as issuer; issuer named but foreign key; issuer's key id with a forged signature; the other honest issuer; "
                "own namespace with the victim's uuid; subject or issuer rewritten after signing), node restart; after each operation every published credential is verified on the node. "
                "Status-list world: each run: 2-4 phases of 2-4 concurrent tasks issuing credentials with status-list entries, revoking, fetching the served lists and verifying on "
                "the other node; between phases the clock jumps (16 min cache age, 19 h re-issue margin, 25 h expiry) or the issuer becomes unreachable; one third of "
                "the runs start a few slots before the page end, one third inject HTTP faults on list download, one quarter have a hostile list server that answers a verification asking for one list with the first version ever served of another, validly signed list (http.list-swapped). Non-trivial: more than two credentials and at least "
                "one non-FIFO decision or fault; distinct = distinct decision hashes.",
        "invariants": ["C11.unique-slot", "C11.served", "C11.effective", "C11.issuer-only", "C11.permanent"],
        "assumptions": ["network revocations: the honest issuers and the attacker are played by the workload with its own keys (the node under test is the verifier); a revocation back-dated to a time at which a since-removed key was valid is not generated",
                        "SQLite only: with one connection issuance transactions serialise; interleavings are at transaction boundaries"],
        "probes_expected": ["page-rolled-over", "http.issuer-unreachable", "forged-network-revocation", "network-revocation-before-credential", "network-revocation-by-issuer"],
        "quick": {"budget_s": 90, "chunk": 10},
        "thorough": {"budget_s": 1200, "chunk": 10, "minimise_s": 180},
    },
    "C16": {
        "test": "TestC16",
        "level": "exploration",
        "world": "B: discovery server node (SQL seam) and two client nodes hosting three registering subjects; real refresh/update loops on the virtual clock",
        "rule": "each run: 2-4 phases of 2-3 concurrent tasks (activate, deactivate/retract, scripted continuing poll, defective registration by a scripted client: "
                "wrong audience, validity above the maximum, JSON-LD format, no credentials, surplus / missing credential, presentation outliving a credential, and retractions "
                "signed with the subject's own key: without retract_jti, naming an id nobody registered, naming the live entry of another subject) separated by up to 28 "
                "virtual minutes (owners refresh at 45% of the validity); one third of the runs inject HTTP request loss, response loss and 5xx on the discovery "
                "endpoints; then convergence of the real clients, optionally a server reset with a new seed, optionally expiry with a stopped client. "
                "Non-trivial: at least one accepted registration or scripted poll; distinct = distinct decision hashes.",
        "invariants": ["C16.admission", "C16.timestamps", "C16.no-skip", "C16.converge", "C16.search"],
        "assumptions": ["client-side storage faults and client crashes mid-batch are outside the property's quantifier and are not injected (DESIGN.md, observation O1)",
                        "convergence is judged against registrations older than two refresh intervals, because owners keep refreshing their entries",
                        "retraction markers are compared by their effect only (clients cannot validate them)"],
        "probes_expected": ["server-reset-new-seed", "http.response-lost", "http.request-lost"],
        "quick": {"budget_s": 120, "chunk": 6, "chunk_timeout_s": 1200},
        "thorough": {"budget_s": 1500, "chunk": 6, "minimise_s": 240, "chunk_timeout_s": 2400},
    },
    "C13": {
        "test": "TestC13",
        "level": "fault_enumeration",
        "world": "C: one node, real vdr.Module (didsubject.SqlManager, didweb and didnuts managers), real single-node Network engine, gorm on the SQL seam, KV stores on the KV seam",
        "rule": "enum phase: each case is a seeded sequence of 2-4 subject operations (create, add/update/delete service, add key, deactivate) on 1-2 subjects with "
                "DID methods {web,nuts}, {nuts} or {web}; every fault point of the sequence (SQL statement error, SQL commit failure, process stop before / after "
                "each SQL commit, KV operation error, KV commit failure, process stop before / after / between the hooks of each KV commit inside the did:nuts "
                "publish) is fired once in turn, followed by restart, the rollback sweep, the model comparison and a repeated attempt; sampled phase: longer "
                "sequences, seeded fault subsets (up to 3 per run) and concurrent operations on the same subject name. Distinct = (case, fault point) signatures plus decision hashes.",
        "invariants": ["C13.atomic", "C13.log-empty", "C13.versions", "C13.unique-subject", "C13.retry"],
        "assumptions": KV_ASSUME + ["SQLite only; row-lock behaviour of other databases is not simulated",
                                    "the sweep is the manager's Rollback, run after 150 virtual seconds (the module's own loop runs as well when did:nuts is enabled)",
                                    "'commit acknowledged but lost' is not injected"],
        "probes_expected": ["restart-after-crash", "retry-after-rollback", "crash.sql-after-commit", "crash.sql-before-commit", "sql.commit-fail", "sql.statement-error"],
        "quick": {"phases": [
            {"name": "enum", "env": {"VERIF_MODE": "enum"}, "budget_s": 80, "chunk": 1, "base": 1000000},
            {"name": "sampled", "budget_s": 50, "chunk": 20},
        ]},
        "thorough": {"phases": [
            {"name": "enum", "env": {"VERIF_MODE": "enum"}, "budget_s": 900, "chunk": 1, "base": 1000000},
            {"name": "sampled", "budget_s": 600, "chunk": 20},
        ], "minimise_s": 120},
    },
    "C02": {
        "test": "TestC02",
        "level": "exploration",
        "world": "B: authorization-server node and client node, complete real RFC021 service-to-service flow over the simulated HTTP transport",
        "rule": "each run: one scenario - a valid request, or exactly one named defect applied through the workload (revoked / expired credential, credential "
                "about another subject, unknown scope, scope the wallet cannot fulfil, scope string with two values of which one cannot be fulfilled), in transit (assertion signature or claim, submission definition id or "
                "path, scope parameter, delivery delayed 20 s past the 5 s validity, duplicate delivery - unchanged or with another / no / extended client_id -, delivery to another subject's token endpoint), or a "
                "scope whose policy maps a credential field onto a reserved claim name - with bearer or DPoP tokens; the authorization-code grant (OpenID4VP user flow, "
                "the workload plays the browser): untouched, wallet answer rewritten into two presentations of which the first does not verify, and the token "
                "request of the code grant changed in transit (PKCE verifier extended / shortened / replaced by the challenge / of another session / removed / "
                "empty; client id extended / shortened / the server's own / on another host); issued tokens are introspected at issuance, "
                "at a seeded moment before expiry and after expiry. Distinct = (scenario, token type, variant) signatures; 'measurements' counts issued/refused per scenario.",
        "invariants": ["C02.issue", "C02.introspect"],
        "assumptions": ["single defects only; combinations of defects are not generated",
                        "in the authorization-code grant the user is pre-authorised by the client application (no interactive wallet screens)"],
        "quick": {"budget_s": 75, "chunk": 20},
        "thorough": {"budget_s": 900, "chunk": 20, "minimise_s": 60},
    },
    "C18": {
        "test": "TestC18",
        "level": "exploration",
        "world": "B: one resolving node, scripted remote did:web servers on the simulated HTTP transport, a second real node hosting a did:web subject",
        "rule": "each run: 3-7 did:web identifiers built from components (domain, port, path segments, mixed case, percent-encoded segment) or hostile variants "
                "(IPv4 / IPv6 literal, user-info, encoded slash / query / fragment in the host) resolved against a scripted server behaviour (correct document, "
                "other id, redirect to another host whose document claims the identifier, redirect to http, redirect on the same host, html content type, 500, "
                "404); every outbound request is recorded and judged; then the node's own DID (zero requests), a DID of the other node, and deactivation. "
                "Distinct = distinct case lists; 'measurements' counts each (shape, server behaviour) pair. Shape encoded-slash-in-segment is judged on the escaped request path.",
        "invariants": ["C18.origin", "C18.binding", "C18.local", "C18.deactivated"],
        "assumptions": ["did:jwk / did:key purity and the DID-URL round-trip law are pure functions and are not claimed",
                        "a redirect on the same host over https is not counted as leaving the identifier's origin"],
        "quick": {"budget_s": 60, "chunk": 25},
        "thorough": {"budget_s": 600, "chunk": 25, "minimise_s": 60},
    },
    "C01": {
        "test": "TestC01",
        "level": "exploration",
        "world": "B: issuer/holder node and verifier node, real issuer, wallet, verifier, status list and did:web resolution over the simulated HTTP transport",
        "rule": "each run: one credential (JSON-LD or JWT, with or without expiration, with or without status list) and 4-9 seeded events on the virtual clock: verify on "
                "the other node, verify an in-transit mutation (14 JSON-LD and 9 JWT semantic operators: claim, id, issuer, subject, dates, status reference, proof "
                "options, JWT header and claims), clock advance, advance past expiry, revoke, deactivate the issuer, present (wallet builds a presentation, the other "
                "node verifies it), mutated presentation, presentation signed by a non-subject. The model tracks the validity window, what the verifier can know about "
                "the revocation (its downloads are observed at the transport) and whether the issuer is active. Distinct = distinct decision hashes; 'measurements' counts each operator.",
        "invariants": ["C01.verdict", "C01.tamper", "C01.roundtrip"],
        "assumptions": ["the universal quantifier over all mutations of all members is a pure-input statement and not claimed; tampering is a fixed operator set applied as an in-transit fault",
                        "did:web issuers; trust configuration (did:nuts) and key removal are not driven; verification within 6 s of the expiry instant is not judged (allowed skew)"],
        "quick": {"budget_s": 75, "chunk": 15},
        "thorough": {"budget_s": 900, "chunk": 15, "minimise_s": 90},
    },
    "C15": {
        "test": "TestC15",
        "level": "exploration",
        "world": "A: 3-4 real Network engine nodes with configured node DIDs (did:nuts via the real VDR, keyAgreement keys, NutsComm services), a scripted peer, identities decided by the real TLS authenticator",
        "rule": "each run: 1-3 private transactions with seeded participant lists (including lists the creator is not on), created on seeded nodes; the scripted peer "
                "appears to each node as anonymous, authenticated-but-unlisted, or claiming a listed DID with a foreign / no certificate, and sends payload, list, range "
                "and state queries for every private transaction, as do honest unlisted nodes; unsolicited payloads with mismatching data and for unknown transactions "
                "are pushed. Every envelope handed to Send on any node is scanned for the private payload bytes. Distinct = (participant lists, identities) signatures. The scripted peer answers a list query in two messages in half of the runs: the second repeats the transactions with bytes that do not hash to the declared payload hash; stored bytes are compared with the hash they are stored under.",
        "invariants": ["C15.leak", "C15.store"],
        "assumptions": ["the handshake inside the real gRPC connection manager is not run, only the authenticator it calls; a failed authentication is modelled as an anonymous peer"],
        "probes_expected": ["listed-participant-received-payload", "authentication-refused", "participant-without-key-agreement-key"],
        "quick": {"budget_s": 100, "chunk": 6, "chunk_timeout_s": 1200},
        "thorough": {"budget_s": 1200, "chunk": 6, "minimise_s": 200, "chunk_timeout_s": 2400},
    },
    "C03": {
        "test": "TestC03",
        "level": "exploration",
        "world": "B: two real web nodes (crypto with the file-system key store, VDR did:web and did:nuts, VCR issuer/holder/verifier, IAM, policy, crypto API) on the simulated HTTP, SQL, session-store and peer-to-peer transports, debug logging on",
        "rule": "each run: a composite workload (subject creation, credential issuance in a seeded format, wallet load, service access token in a seeded token type, introspection, "
                "DPoP proof, presentation, the signing API with caller-supplied headers including a jwk header with a private part, path-like key names, did:nuts document traffic) "
                "with a seeded subset of HTTP, SQL and KV error faults enabled, because error paths are where a key would be logged. At the end every private key in the nodes' key "
                "store directories is parsed and encoded (scalar/exponent/primes as hex, HEX, base64, base64url, raw, decimal; PKCS#8 PEM body lines; DER tail; SEC1) and every "
                "monitored channel is searched: HTTP requests and responses, API responses to the workload, peer-to-peer envelopes, log lines (debug level), audit log, every SQL "
                "row, every session-store write, every file under the data directory outside the key store. Distinct = distinct decision hashes. Half of the runs link a key id to another key after it was used (Crypto.Link) and check signatures against what the key store then publishes.",
        "invariants": ["C03.canary", "C03.kid", "C03.namespace", "C03.jwk-header"],
        "assumptions": ["only the file-system key store backend runs (Vault and Azure backends need their servers)",
                        "a key leaked in a transformed form that is none of the searched encodings (e.g. encrypted, split, or re-encoded with another alphabet) is not seen"],
        "probes_expected": ["signature-verified-with-published-key", "private-jwk-header-refused", "private-jwk-object-refused", "unknown-key-ids-refused"],
        "quick": {"budget_s": 75, "chunk": 6, "chunk_timeout_s": 1200},
        "thorough": {"budget_s": 900, "chunk": 6, "minimise_s": 120, "chunk_timeout_s": 2400},
    },
    "C19": {
        "test": "TestC19",
        "level": "exploration",
        "world": "A (one real did:nuts node with a scripted hostile peer on the simulated peer-to-peer transport) and B (two real web nodes with a corrupting link on the simulated HTTP transport)",
        "rule": "each run picks an arena. peer: 3-10 hostile envelopes of every message kind (empty, short, over-long byte fields, extreme clocks and ranges, truncated / corrupted set-reconciliation "
                "filters, conversation ids captured from the node's own outstanding queries or bogus, paging numbers out of range), transaction lists with garbage, named-defect transactions, "
                "transactions whose protected header has a structure-aware JSON mutation under a valid signature, and well-formed transactions that carry a mutated DID document (creation or update), "
                "which reach the VDR on the notifier's goroutines. http: one or two exchanges of a real token-request + discovery workload between two nodes (metadata, presentation definition, "
                "token request / response, did.json, status list, discovery registration / list) are mutated in transit in a seeded direction (JSON tree mutation: type confusion, null, deleted, "
                "duplicated, renamed, swapped members, extreme numbers, long strings, deep nesting, truncation; JWT header / claims; form fields). Distinct = distinct decision hashes.",
        "invariants": ["C19.no-panic", "C19.no-hang", "C19.unchanged"],
        "assumptions": ["a panic on a goroutine spawned by the node ends the worker process; the driver re-runs that run alone in a fresh process and reports it only if the process dies again at the same place",
                        "bytes that are not a well-formed protobuf envelope never reach the protocol (gRPC rejects them)",
                        "mutated documents keep their original signature (JSON-LD and JWT proofs then fail): code behind a successful signature check is reached only for DAG transactions and DID documents, which the workload signs itself"],
        "probes_expected": ["mutated-exchange-rejected", "mutated-exchange-tolerated", "well-formed-transaction-with-mutated-document-admitted"],
        "crash_is_violation": True,
        "env": {"VERIF_RUN_WALL_S": "90"},
        "quick": {"budget_s": 90, "chunk": 10, "chunk_timeout_s": 600},
        "thorough": {"budget_s": 1200, "chunk": 10, "minimise_s": 120, "chunk_timeout_s": 900},
    },
    "C09": {
        "test": "TestC09",
        "level": "exploration",
        "world": "A: one real node (Network engine, DAG verifiers, notifier, VDR ambassador, validators, DID store); the workload plays the rest of the network with its own keys",
        "rule": "each run: two to four did:nuts DIDs and 5-14 seeded events, each a DAG transaction carrying a DID document built and signed by the workload: honest "
                "(creation, service change, key added, old key removed, controller set / dropped, update by the controller's key, deactivation) or an attack that the DAG "
                "layer may admit but the VDR must refuse (identifier not the thumbprint of the embedded key; signed by a non-controller's key, by an assertion-only key, "
                "by a removed key, by a deactivated controller's key; documents breaking each listed method rule), with node restarts at seeded points. Ground truth per "
                "DID: versions, controllers, capabilityInvocation keys. Distinct = distinct decision hashes; 'measurements' counts each event kind. Invalid documents also: verification method embedded in capabilityInvocation with a foreign / non-thumbprint id; an existing method id kept with another key under it.",
        "invariants": ["C09.authorised", "C09.keys", "C09.no-effect"],
        "assumptions": ["controller chains and cycles are not generated (nested controllers have depth and active-controller rules this model does not mirror)",
                        "honest updates are linear (they succeed the latest version); accepted forks are C10's subject",
                        "a verification method naming a foreign controller is not among the method rules the property lists: observed (accepted by the node) but not judged"],
        "quick": {"budget_s": 75, "chunk": 20},
        "thorough": {"budget_s": 900, "chunk": 20, "minimise_s": 120},
    },
}
