#!/usr/bin/env python3
"""Generate /verif/sim/go.mod from /repo/go.mod (mirrors all require blocks; offline build needs them)."""
import re, shutil, sys, os
repo = os.environ.get("VERIF_REPO", "/repo")
here = os.path.dirname(os.path.dirname(os.path.abspath(__file__)))
src = open(os.path.join(repo, "go.mod")).read()
out = []
for line in src.splitlines():
    if line.startswith("module "):
        out.append("module verifsim")
    elif re.match(r"^go \d", line):
        out.append("go 1.26.8")
    elif line.startswith("toolchain "):
        continue
    else:
        out.append(line)
out.append("")
out.append("require github.com/nuts-foundation/nuts-node v0.0.0")
out.append("require github.com/anishathalye/porcupine v1.3.0")
out.append("require pgregory.net/rapid v1.3.0")
out.append("")
out.append("replace github.com/nuts-foundation/nuts-node => " + repo)
dst = os.path.join(here, "sim", "go.mod")
new = "\n".join(out) + "\n"
old = open(dst).read() if os.path.exists(dst) else None
if old != new:
    open(dst, "w").write(new)
# go.sum: start from the repository's, keep extra lines we already have (porcupine/rapid)
sumdst = os.path.join(here, "sim", "go.sum")
lines = set(open(os.path.join(repo, "go.sum")).read().splitlines())
extra = os.path.join(here, "sim", "go.sum.extra")
if os.path.exists(extra):
    lines |= set(open(extra).read().splitlines())
new = "\n".join(sorted(l for l in lines if l.strip())) + "\n"
old = open(sumdst).read() if os.path.exists(sumdst) else None
if old != new:
    open(sumdst, "w").write(new)
